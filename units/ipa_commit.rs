// InnerProductArgPC::commit (ipa_pc/mod.rs), Randomness::empty  (C08, C07, C04, C17, C01)
//@use core ops_gen poly labeled labeled_comm sponge std ser
//@spec ring
//@typemap /<G>/ => 
//@typemap /G::Group::/ => G1::
//@typemap /Option<G>/ => Option<G1Affine>
//@typemap /Vec<G>/ => Vec<G1Affine>
//@typemap /: G,/ => : G1Affine,
//@typemap /&\[G\]/ => &[G1Affine]
//@typemap /\bG::zero\(\)/ => G1Affine::zero()
//@typemap /G::ScalarField::/ => Fr::
//@typemap /Self::CommitterKey/ => CommitterKey
//@typemap /Self::Commitment\b/ => Commitment
//@typemap /Self::CommitmentState/ => Randomness
//@typemap /Self::Error/ => Error
//@typemap /: &P =/ => : &Poly =
//@enum file=poly-commit/src/error.rs name=Error
//@struct file=poly-commit/src/ipa_pc/data_structures.rs name=CommitterKey
//@struct file=poly-commit/src/ipa_pc/data_structures.rs name=Commitment
//@struct file=poly-commit/src/ipa_pc/data_structures.rs name=Randomness
impl CommitterKey {
//@stub from=ipa.rs id=ipa.CommitterKey.supported_degree
}
impl Randomness {
//@stub from=ipa.rs id=ipa.Randomness.rand
//@fn id=ipa.Randomness.empty file=poly-commit/src/ipa_pc/data_structures.rs scope="impl<G: AffineRepr> PCCommitmentState for Randomness<G>" name=empty props=C07
    pub fn empty() -> (r: Self)
    ensures
        r.rand@ == f_zero() && r.shifted_rand is None,   // name=ipa.Randomness.empty.no_blinding props=C07
//@body
//@end
}
// the commitment to polynomial i and its state, with `pos` the RNG position before it
#[verifier::opaque]
//@spec ipa_commit_spec
// RNG draws consumed by the first k polynomials
pub open spec fn ipa_draws(ps: Seq<&LabeledPolynomial>, k: nat) -> nat decreases k {
    if k == 0 { 0 } else { ipa_draws(ps, (k - 1) as nat) + (if ps[k - 1].hiding_bound is Some { if ps[k - 1].degree_bound is Some { 2nat } else { 1nat } } else { 0nat }) }
}
pub open spec fn ipa_admissible(ck: &CommitterKey, p: &LabeledPolynomial) -> bool {
    p.polynomial.degree_spec() <= ck.comm_key@.len() - 1
    && (p.degree_bound is Some ==> (p.polynomial.degree_spec() <= p.degree_bound->Some_0 && p.degree_bound->Some_0 <= ck.comm_key@.len() - 1))
}
pub struct InnerProductArgPC;
impl InnerProductArgPC {
//@stub from=ipa.rs id=ipa.cm_commit
//@stub from=ipa.rs id=ipa.check_degrees_and_bounds
//@fn id=ipa.commit file=poly-commit/src/ipa_pc/mod.rs scope="impl<G, D, P> PolynomialCommitment<G::ScalarField, P> for InnerProductArgPC<G, D, P>" name=commit props=C08,C07,C04,C17,C01,C19
    fn commit<'a>(ck: &CommitterKey, polynomials: Vec<&'a LabeledPolynomial>, rng: Option<&mut Rng>) -> (res: Result<(Vec<LabeledCommitment<Commitment>>, Vec<Randomness>), Error>)
    requires
        ck.comm_key@.len() >= 1, ck.comm_key@.len() < usize::MAX,
        forall|i: int| 0 <= i < polynomials@.len() ==> (#[trigger] polynomials@[i]).polynomial.wf() && polynomials@[i].polynomial.coeffs@.len() < usize::MAX,
        rng is Some ==> rng->Some_0.present@,
    ensures
        // a polynomial above the supported degree or its declared bound, or a bound above the supported degree, is refused
        (res is Ok) ==> (forall|i: int| 0 <= i < polynomials@.len() ==> ipa_admissible(ck, (#[trigger] polynomials@[i]))),   // name=ipa.commit.bound_violations_are_refused props=C04,C17,C19
        res is Ok ==> res->Ok_0.0@.len() == polynomials@.len() && res->Ok_0.1@.len() == polynomials@.len(),   // name=ipa.commit.one_commitment_and_state_per_polynomial props=C01,C19
        res is Ok ==> (forall|i: int| 0 <= i < polynomials@.len() ==> ipa_commit_one(ck, (#[trigger] polynomials@[i]), &res->Ok_0.0@[i], &res->Ok_0.1@[i],
            (if rng is Some { old(rng->Some_0).id@ } else { 0 }), (if rng is Some { old(rng->Some_0).pos@ } else { 0 }) + ipa_draws(polynomials@, i as nat))),   // name=ipa.commit.commitments_are_key_defined_linear_maps_with_fresh_blinding props=C08,C07,C01,C19
        (res is Ok && rng is None) ==> (forall|i: int| 0 <= i < polynomials@.len() ==> (#[trigger] polynomials@[i]).hiding_bound is None),   // name=ipa.commit.hiding_without_rng_never_succeeds props=C07,C17,C19
        res is Err ==> (exists|i: int| 0 <= i < polynomials@.len() && !ipa_admissible(ck, #[trigger] polynomials@[i])),   // name=ipa.commit.only_out_of_domain_requests_are_refused props=C17,C01,C19
//@body
//@rw * /&mut crate::optional_rng::OptionalRng\(rng\)/ => &mut optional_rng_wrap(rng)
//@rw * /label\.to_string\(\)/ => string_to_string(label)
//@rw * /let mut comms = Vec::new\(\);/ => let mut comms: Vec<LabeledCommitment<Commitment>> = Vec::new();
//@rw * /let mut states = Vec::new\(\);/ => let mut states: Vec<Randomness> = Vec::new();
//@closure |d| => |d: usize| -> (sc: G1Affine) requires d <= ck.comm_key@.len() - 1
        ensures sc@ == f_add(msm(ck.comm_key@.subrange(ck.comm_key@.len() - 1 - d, ck.comm_key@.len() as int), polynomial.cv(), min((d + 1) as nat, polynomial.len())),
            if state.shifted_rand is Some { f_mul(ck.s@, state.shifted_rand->Some_0@) } else { f_zero() })
//@after start
        let ghost rng_present = rng is Some;
        let ghost id0 = if rng is Some { rng->Some_0.id@ } else { 0 };
        let ghost pos0 = if rng is Some { rng->Some_0.pos@ } else { 0 };
//@loop 1 kw=for name=it
            invariant ck.comm_key@.len() >= 1, ck.comm_key@.len() < usize::MAX, it.index@ <= polynomials@.len(), comms@.len() == it.index@, states@.len() == it.index@,
                rng.present@ == rng_present, rng_present ==> (rng.id@ == id0 && rng.pos@ == pos0 + ipa_draws(polynomials@, it.index@ as nat)),
                forall|i: int| 0 <= i < polynomials@.len() ==> (#[trigger] polynomials@[i]).polynomial.wf() && polynomials@[i].polynomial.coeffs@.len() < usize::MAX,
                forall|i: int| 0 <= i < it.index@ ==> ipa_admissible(ck, (#[trigger] polynomials@[i])) && ipa_commit_one(ck, polynomials@[i], &comms@[i], &states@[i], id0, pos0 + ipa_draws(polynomials@, i as nat))
                    && (polynomials@[i].hiding_bound is Some ==> rng_present),
//@loopstart 1
            let ghost k = comms@.len();
            let ghost posk = rng.pos@;
//@loopend 1
            proof {
                assert(labeled_polynomial == polynomials@[k as int]);
                assert(ipa_commit_one(ck, polynomials@[k as int], &comms@[k as int], &states@[k as int], id0, pos0 + ipa_draws(polynomials@, k as nat))) by {
                    reveal(ipa_commit_one);
                    assert(rng_present ==> posk == pos0 + ipa_draws(polynomials@, k as nat));
                }
            }
//@end
}
