// Inner-product-argument PC (ipa_pc): commitment state sampling, Pedersen commitment, admission, succinct verifier, check polynomial
//@use core ops_gen poly labeled labeled_comm sponge std ser
//@spec ring
//@typemap /<G>/ => 
//@typemap /G::Group::/ => G1::
//@typemap /: G::Group/ => : G1
//@typemap /-> G::Group/ => -> G1
//@typemap /Option<G>/ => Option<G1Affine>
//@typemap /Vec<G>/ => Vec<G1Affine>
//@typemap /: G,/ => : G1Affine,
//@typemap /&\[G\]/ => &[G1Affine]
//@typemap /::<G::ScalarField>/ => 
//@typemap /<G::ScalarField as Field>::/ => Fr::
//@typemap /\bF::/ => Fr::
//@typemap /\bark_std::log2\(/ => log2_ceil(
//@typemap /Vec<F>/ => Vec<Fr>
//@enum file=poly-commit/src/error.rs name=Error
//@struct file=poly-commit/src/ipa_pc/data_structures.rs name=CommitterKey
//@struct file=poly-commit/src/ipa_pc/data_structures.rs name=Commitment
//@struct file=poly-commit/src/ipa_pc/data_structures.rs name=Randomness
//@struct file=poly-commit/src/ipa_pc/data_structures.rs name=Proof
//@struct file=poly-commit/src/ipa_pc/data_structures.rs name=SuccinctCheckPolynomial
pub type VerifierKey = CommitterKey;
impl CommitterKey {
//@fn id=ipa.CommitterKey.supported_degree file=poly-commit/src/ipa_pc/data_structures.rs scope="impl<G: AffineRepr> PCCommitterKey for CommitterKey<G>" name=supported_degree props=C09
    pub fn supported_degree(&self) -> (r: usize)
    requires
        self.comm_key@.len() >= 1,
    ensures
        r == self.comm_key@.len() - 1,   // name=ipa.ck.supported_degree.truthful props=C09
//@body
//@end
}
impl Randomness {
//@fn id=ipa.Randomness.rand file=poly-commit/src/ipa_pc/data_structures.rs scope="impl<G: AffineRepr> PCCommitmentState for Randomness<G>" name=rand props=C07
    pub fn rand(_a: usize, has_degree_bound: bool, _b: Option<usize>, rng: &mut Rng) -> (r: Self)
    ensures
        r.rand@ == draw(old(rng).id@, old(rng).pos@),                                   // name=ipa.Randomness.rand.fresh props=C07
        r.shifted_rand is Some == has_degree_bound,
        has_degree_bound ==> r.shifted_rand->Some_0@ == draw(old(rng).id@, old(rng).pos@ + 1),   // name=ipa.Randomness.rand.shifted_blinding_is_an_independent_draw props=C07
        final(rng).pos@ == old(rng).pos@ + (if has_degree_bound { 2nat } else { 1nat }),          // name=ipa.Randomness.rand.one_draw_per_blinded_commitment props=C07
        old(rng).present@, final(rng).present == old(rng).present, final(rng).id == old(rng).id,
//@body
//@end
}

//@use h2c
//@spec h2c_spec scp_spec ipa_spec
pub struct InnerProductArgPC;
impl InnerProductArgPC {
//@fn id=ipa.compute_random_oracle_challenge file=poly-commit/src/ipa_pc/mod.rs scope="impl<G, D, P> InnerProductArgPC<G, D, P>" name=compute_random_oracle_challenge props=C10,C11,C03
    #[verifier::exec_allows_no_decreases_clause]
    fn compute_random_oracle_challenge(bytes: &[u8]) -> (r: Fr)
    ensures
        r@ == ro_chal(bytes@),   // name=ipa.compute_random_oracle_challenge.first_field_element_of_the_sequence_over_the_whole_byte_string props=C10,C11,C03
//@body
//@rw 1 /let mut challenge = None;/ => let mut challenge: Option<Fr> = None;
//@rw 1 /bytes\.to_vec\(\)/ => bytes_to_vec(bytes)
//@rw 1 /hash_input\.extend\((\w+)\.to_le_bytes\(\)\);/ => bytes_extend(&mut hash_input, &u64_to_le_bytes(\1));
//@rw 1 /D::digest\(&hash_input\.as_slice\(\)\)/ => digest(hash_input.as_slice())
//@rw 1 /<G::ScalarField as Field>::from_random_bytes\(/ => field_from_random_bytes(
//@rw 1 /i \+= 1;/ => ctr_inc_u64(&mut i);
//@loop 1 kw=while
            invariant i as nat == tt, forall|t2: nat| t2 + (if challenge is Some { 1nat } else { 0nat }) < tt ==> ro_attempt(bytes@, t2) is None, challenge is Some ==> (tt >= 1 && challenge == ro_attempt(bytes@, (tt - 1) as nat)),
//@beforeloop 1
        let ghost mut tt: nat = 0;
//@loopend 1
            proof { tt = tt + 1; }
//@before /challenge\.unwrap\(\)/
        proof { assert(ro_first(bytes@, (tt - 1) as nat)); lemma_ro_first_unique(bytes@, (tt - 1) as nat); }
//@end

//@fn id=ipa.cm_commit file=poly-commit/src/ipa_pc/mod.rs scope="impl<G, D, P> InnerProductArgPC<G, D, P>" name=cm_commit props=C08,C07,C10
    fn cm_commit(comm_key: &[G1Affine], scalars: &[Fr], hiding_generator: Option<G1Affine>, randomizer: Option<Fr>) -> (r: G1)
    ensures
        r@ == f_add(msm(comm_key@, fviews(scalars@), min(comm_key@.len(), scalars@.len())),
                    if randomizer is Some { f_mul(hiding_generator->Some_0@, randomizer->Some_0@) } else { f_zero() }),   // name=ipa.cm_commit.value props=C08,C07
//@body
//@closure |s| => |s: &Fr| -> (b: BigInt) ensures b@ == s@
//@after /let scalars_bigint =/
        proof { assert(bviews(scalars_bigint@) =~= fviews(scalars@)); broadcast use ax_add_zero; }
//@end

//@fn id=ipa.succinct_check file=poly-commit/src/ipa_pc/mod.rs scope="impl<G, D, P> InnerProductArgPC<G, D, P>" name=succinct_check props=C10,C02,C03,C04,C11,C17
    #[verifier::loop_isolation(false)]
    fn succinct_check<'a>(vk: &VerifierKey, commitments: Vec<&'a LabeledCommitment<Commitment>>, point: Fr, values: Vec<Fr>, proof: &Proof, sponge: &mut Sponge) -> (res: Option<SuccinctCheckPolynomial>)
    requires
        vk.comm_key@.len() >= 1, vk.comm_key@.len() < usize::MAX,
        // a degree bound above the supported degree, or 32 or more rounds, overflow in the real code and abort
        forall|i: int| 0 <= i < commitments@.len() ==> ((#[trigger] commitments@[i]).degree_bound is Some ==> commitments@[i].degree_bound->Some_0 <= vk.comm_key@.len() - 1),
        min(proof.l_vec@.len(), proof.r_vec@.len()) < 32,
    ensures
        (res is Some) == ipa_relation(vk, commitments@, values@, point, proof, old(sponge).st@, min(commitments@.len(), values@.len())),   // name=ipa.succinct_check.relation props=C10,C02,C03,C04
        res is Some ==> fviews(res->Some_0.0@) == ipa_rcs(ipa_first(ipa_comb(vk, commitments@, values@, point, proof, old(sponge).st@, min(commitments@.len(), values@.len())), point@,
            ipa_acc_v(commitments@, values@, point@, (vk.comm_key@.len() - 1) as nat, old(sponge).st@, min(commitments@.len(), values@.len()))), proof.l_vec@, proof.r_vec@, min(proof.l_vec@.len(), proof.r_vec@.len())),   // name=ipa.succinct_check.check_polynomial_challenges props=C10
        final(sponge).st@ == sp_iter(old(sponge).st@, 1 + 2 * min(commitments@.len(), values@.len())),   // name=ipa.succinct_check.squeeze_schedule props=C11
//@body
//@rw * /round_challenge\.inverse\(\)\.unwrap\(\)/ => round_challenge.inverse().unwrap_abort()
//@after start
        let ghost values0 = values@;
//@loop 1 kw=for name=it
            invariant it.index@ <= min(commitments@.len(), values0.len()), d == vk.comm_key@.len() - 1,
                sponge.st@ == sp_iter(old(sponge).st@, 1 + 2 * it.index@ as nat),
                cur_challenge@ == sp_chal(old(sponge).st@, 2 * it.index@ as nat),
                combined_v@ == ipa_acc_v(commitments@, values0, point@, d as nat, old(sponge).st@, it.index@ as nat),
                combined_commitment_proj@ == ipa_acc_c(commitments@, old(sponge).st@, it.index@ as nat),
//@loopstart 1
            proof { reveal_with_fuel(sp_iter, 4); }
//@loop 2 kw=for name=it2
            invariant it2.index@ <= min(proof.l_vec@.len(), proof.r_vec@.len()),
                round_challenges@.len() == it2.index@,
                round_challenge@ == ipa_rc(first_rc, proof.l_vec@, proof.r_vec@, it2.index@ as nat),
                fviews(round_challenges@) =~= ipa_rcs(first_rc, proof.l_vec@, proof.r_vec@, it2.index@ as nat),
                round_commitment_proj@ == ipa_rcomm(start_rcomm, first_rc, proof.l_vec@, proof.r_vec@, it2.index@ as nat),
//@after /let mut cur_challenge: G::ScalarField =/
        proof { reveal_with_fuel(sp_iter, 3); }
//@after /let mut round_commitment_proj =/
        let ghost first_rc = round_challenge@; let ghost start_rcomm = round_commitment_proj@;
        proof { reveal_with_fuel(sp_iter, 2); }
//@loopstart 2
            let ghost rcs0 = round_challenges@;
//@loopend 2
            proof {
                assert(round_challenges@ == rcs0.push(round_challenge));
                let tgt = ipa_rcs(first_rc, proof.l_vec@, proof.r_vec@, (it2.index@ + 1) as nat);
                assert forall|i: int| 0 <= i < round_challenges@.len() implies fviews(round_challenges@)[i] == tgt[i] by {
                    if i < rcs0.len() { assert(fviews(rcs0)[i] == ipa_rcs(first_rc, proof.l_vec@, proof.r_vec@, it2.index@ as nat)[i]); }
                }
                assert(fviews(round_challenges@) =~= tgt);
            }
//@before /let check_poly =/
        proof { reveal_with_fuel(dot, 3); }
//@end

//@fn id=ipa.check_degrees_and_bounds file=poly-commit/src/ipa_pc/mod.rs scope="impl<G, D, P> InnerProductArgPC<G, D, P>" name=check_degrees_and_bounds props=C04,C17
    fn check_degrees_and_bounds(supported_degree: usize, p: &LabeledPolynomial) -> (res: Result<(), Error>)
    requires
        p.polynomial.coeffs@.len() < usize::MAX, supported_degree < usize::MAX,
    ensures
        (res is Ok) == (p.polynomial.degree_spec() <= supported_degree
                        && (p.degree_bound is Some ==> (p.polynomial.degree_spec() <= p.degree_bound->Some_0 && p.degree_bound->Some_0 <= supported_degree))),   // name=ipa.check_degrees_and_bounds.iff props=C04,C17
//@body
//@rw * /p\.label\(\)\.to_string\(\)/ => string_to_string(p.label())
//@end
}

impl SuccinctCheckPolynomial {
//@stub from=ipa_coeffs.rs id=ipa.SuccinctCheckPolynomial.compute_coeffs vis=pub
}
pub struct IpaPC;
impl IpaPC {
//@stub from=ipa.rs id=ipa.succinct_check
//@stub from=ipa.rs id=ipa.cm_commit
//@fn id=ipa.check file=poly-commit/src/ipa_pc/mod.rs scope="impl<G, D, P> PolynomialCommitment<G::ScalarField, P> for InnerProductArgPC<G, D, P>" name=check props=C10,C02,C03,C19,C11
    fn check<'a>(vk: &VerifierKey, commitments: Vec<&'a LabeledCommitment<Commitment>>, point: &'a Fr, values: Vec<Fr>, proof: &Proof, sponge: &mut Sponge, _rng: Option<&mut Rng>) -> (res: Result<bool, Error>)
    requires
        vk.comm_key@.len() >= 1, vk.comm_key@.len() <= 0x4000_0000,      // (31 or more rounds overflow the i32 shifts of the check polynomial and abort)
        forall|i: int| 0 <= i < commitments@.len() ==> ((#[trigger] commitments@[i]).degree_bound is Some ==> commitments@[i].degree_bound->Some_0 <= vk.comm_key@.len() - 1),
    ensures
        // one (L, R) pair per halving round: exactly ceil(log2(key length)) of each, otherwise an error
        (res is Err) == !(proof.l_vec@.len() == proof.r_vec@.len() && is_ceil_log2(vk.comm_key@.len(), proof.l_vec@.len())),   // name=ipa.check.round_count_is_log_of_key_length props=C03,C19
        // accepted iff the succinct relation holds and the final key is the commitment to the check polynomial's coefficients
        res is Ok ==> (res->Ok_0 <==> (ipa_relation(vk, commitments@, values@, *point, proof, old(sponge).st@, min(commitments@.len(), values@.len()))
            && ipa_final_key(vk, ipa_u(vk, commitments@, values@, *point, proof, old(sponge).st@, min(commitments@.len(), values@.len()))) == proof.final_comm_key@)),   // name=ipa.check.accepts_iff_relation_and_final_key props=C10,C02,C03
        res is Ok ==> final(sponge).st@ == sp_iter(old(sponge).st@, 1 + 2 * min(commitments@.len(), values@.len())),   // name=ipa.check.squeeze_schedule props=C11
//@body
//@rw 1 /vk\.supported_degree\(\)/ => (vk.comm_key.len() - 1)
//@rw 1 /check_poly\.unwrap\(\)/ => check_poly.unwrap_abort()
//@rw 1 /Self::succinct_check\(vk, commitments, \*point, values, proof, sponge\)/ => Self::succinct_check(vk, commitments, *point, values, proof, sponge)
//@before /if proof\.l_vec\.len\(\) != proof\.r_vec\.len\(\)/
        proof {
            assert(is_ceil_log2(vk.comm_key@.len(), log_d as nat));
            if is_ceil_log2(vk.comm_key@.len(), proof.l_vec@.len()) { lemma_log_unique(vk.comm_key@.len(), log_d as nat, proof.l_vec@.len()); }
        }
//@before /let check_poly = Self::succinct_check/
        proof { lemma_log_le_30(vk.comm_key@.len() as nat, log_d as nat); }
//@after /let check_poly = Self::succinct_check/
        proof {
            let n = min(commitments@.len(), values@.len());
            assert((check_poly is Some) == ipa_relation(vk, commitments@, values@, *point, proof, old(sponge).st@, n));
        }
//@after /let final_key = Self::cm_commit\(/
        proof {
            let n = min(commitments@.len(), values@.len());
            lemma_sub_zero_iff(final_key@, proof.final_comm_key@);
            broadcast use ax_add_zero;
            assert(fviews(check_poly->Some_0.0@) == ipa_u(vk, commitments@, values@, *point, proof, old(sponge).st@, n));
            assert(final_key@ == ipa_final_key(vk, ipa_u(vk, commitments@, values@, *point, proof, old(sponge).st@, n)));
        }
//@end
}
// k = ceil(log2 n): the least k with n <= 2^k
pub proof fn lemma_log_unique(n: nat, r: nat, k: nat)
    requires is_ceil_log2(n, r), is_ceil_log2(n, k)
    ensures r == k
{
    if k < r { lemma_p2_mono(k, (r - 1) as nat); } else if r < k { lemma_p2_mono(r, (k - 1) as nat); }
}
pub proof fn lemma_p2_pos(k: nat) ensures p2(k) >= 1 decreases k { if k > 0 { lemma_p2_pos((k - 1) as nat); } }
pub proof fn lemma_p2_mono(a: nat, b: nat) requires a <= b ensures p2(a) <= p2(b) decreases b
{ if a < b { lemma_p2_mono(a, (b - 1) as nat); } }
// a key of at most 2^30 elements has at most 30 halving rounds (the i32 shifts downstream overflow from 31 on: see succinct_check's precondition)
pub proof fn lemma_log_le_30(n: nat, r: nat)
    requires n >= 1, n <= 0x4000_0000, n > 1 ==> p2((r - 1) as nat) < n, n <= 1 ==> r == 0
    ensures r <= 30
{
    if r > 30 { lemma_p2_mono(30, (r - 1) as nat); assert(p2(30) == 0x4000_0000) by (compute_only); }
}
pub proof fn lemma_sub_zero_iff(a: FS, b: FS) ensures (f_sub(a, b) == f_zero()) == (a == b)
{ if f_sub(a, b) == f_zero() { lemma_sub_zero_eq(a, b); } else if a == b { lemma_sub_self(a); } }

impl SuccinctCheckPolynomial {
//@fn id=ipa.SuccinctCheckPolynomial.evaluate file=poly-commit/src/ipa_pc/data_structures.rs scope="impl<F: Field> SuccinctCheckPolynomial<F>" name=evaluate props=C16,C10
    pub fn evaluate(&self, point: Fr) -> (r: Fr)
    requires
        self.0@.len() < 32,     // `1 << (log_d - i)` is an i32 shift in the source (the literal is untyped): shifts >= 31 overflow
    ensures
        r@ == scp_eval(fviews(self.0@), point@, self.0@.len()),   // name=ipa.scp.evaluate.product_form props=C16,C10
//@body
//@loop 1 kw=for name=it
            invariant log_d == self.0@.len(), log_d < 32, *challenges == self.0, it.index@ <= log_d,
                product@ == scp_eval(fviews(self.0@), point@, it.index@ as nat),
//@at /let i = i \+ 1;/
            proof {
                let e = (log_d - i) as u64;
                assert(e < 31 ==> (1i32 << e) as u64 == 1u64 << e) by (bit_vector);
                vstd::arithmetic::power2::lemma_pow2_strictly_increases(e as nat, 64); vstd::arithmetic::power2::lemma2_to64();
                vstd::arithmetic::power2::lemma_pow2_pos(e as nat);
                vstd::bits::lemma_u64_shl_is_mul(1u64, e);
            }
//@end
}
