// SonicKZG10 prover side: CommitterKey::{powers, supported_degree}, open  (C11, C01, C04, C08, C09)
//@use core ops_gen poly labeled labeled_comm sponge std
//@spec ring
//@typemap /::<E, P>::/ => ::
//@typemap /<E>/ => 
//@typemap /\bP::Point\b/ => Fr
//@typemap /\bP::/ => Poly::
//@typemap /: P,/ => : Poly,
//@typemap /: &P =/ => : &Poly =
//@typemap /Self::CommitterKey/ => CommitterKey
//@typemap /Self::Commitment/ => kzg10::Commitment
//@typemap /Self::CommitmentState/ => kzg10::Randomness
//@typemap /Self::Proof/ => kzg10::Proof
//@typemap /Self::Error/ => Error
//@typemap /PhantomData<F>/ => PhantomData<Fr>
//@typemap /\bPhantomData\b/ => core::marker::PhantomData
//@enum file=poly-commit/src/error.rs name=Error
pub mod kzg10 {
    use super::*;
//@struct file=poly-commit/src/kzg10/data_structures.rs name=Commitment
//@typemap /Cow<'a, \[E::G1Affine\]>/ => Vec<G1Affine>
//@struct file=poly-commit/src/kzg10/data_structures.rs name=Powers
//@struct file=poly-commit/src/kzg10/data_structures.rs name=Randomness
//@struct file=poly-commit/src/kzg10/data_structures.rs name=VerifierKey
//@struct file=poly-commit/src/kzg10/data_structures.rs name=Proof
//@spec kzg10_check_spec kzg10_commit_spec
    impl Randomness {
//@stub from=kzg10.rs id=kzg10.Randomness.rand
//@stub from=kzg10.rs id=kzg10.Randomness.empty
//@stub from=marlin_prover.rs id=kzg10.Randomness.add_assign_scaled
    }
    pub struct KZG10;
    impl KZG10 {
//@stub from=kzg10.rs id=kzg10.commit
//@stub from=kzg10.rs id=kzg10.check_degrees_and_bounds
//@stub from=kzg10.rs id=kzg10.open
    }
}
//@struct file=poly-commit/src/sonic_pc/data_structures.rs name=CommitterKey
#[verifier::external_body] pub fn cow_from_slice(s: &[G1Affine]) -> (r: Vec<G1Affine>) ensures r@ == s@ { unimplemented!() }
impl Poly {
    #[verifier::external_body] pub fn add_assign_scaled(&mut self, q: (Fr, &Poly))
        ensures forall|x: FS| #[trigger] final(self).ev(x) == f_add(old(self).ev(x), f_mul(q.0@, q.1.ev(x))), final(self).wf(),
                final(self).coeffs@.len() <= (if old(self).coeffs@.len() >= q.1.coeffs@.len() { old(self).coeffs@.len() } else { q.1.coeffs@.len() }),
    { unimplemented!() }
}
// `m[&k].clone()` on BTreeMap<usize, Vec<G1Affine>>: panics (= diverges) if the key is absent
#[verifier::external_body] pub fn btree_index_vec_g1(m: &BTreeMap<usize, Vec<G1Affine>>, k: &usize) -> (r: Vec<G1Affine>) ensures m@.dom().contains(*k), r@ == m@[*k]@ { unimplemented!() }
// what SonicKZG10::trim establishes (units/sonic_trim.rs)
pub open spec fn sonic_ck_wf(ck: &CommitterKey) -> bool {
    ck.powers_of_g@.len() >= 1
    && (ck.enforced_degree_bounds is Some ==> sorted_usize(ck.enforced_degree_bounds->Some_0@))
    && (ck.shifted_powers_of_g is Some ==> (ck.enforced_degree_bounds is Some && ck.enforced_degree_bounds->Some_0@.len() > 0
        && ck.enforced_degree_bounds->Some_0@.last() < ck.shifted_powers_of_g->Some_0@.len()))
    && ((ck.enforced_degree_bounds is Some && ck.enforced_degree_bounds->Some_0@.len() > 0) ==> (ck.shifted_powers_of_g is Some && ck.shifted_powers_of_gamma_g is Some))
}
impl CommitterKey {
//@fn id=sonic_pc.CommitterKey.powers file=poly-commit/src/sonic_pc/data_structures.rs scope="impl<E: Pairing> CommitterKey<E>" name=powers props=C08,C09
    pub fn powers(&self) -> (r: kzg10::Powers)
    ensures
        r.powers_of_g@ == self.powers_of_g@,                  // name=sonic_pc.ck.powers.plain_powers props=C08,C09
        r.powers_of_gamma_g@ == self.powers_of_gamma_g@,      // name=sonic_pc.ck.powers.gamma_powers props=C08,C09
//@body
//@rw * /(self\.\w+)\.as_slice\(\)\.into\(\)/ => cow_from_slice(\1.as_slice())
//@end
//@fn id=sonic_pc.CommitterKey.shifted_powers file=poly-commit/src/sonic_pc/data_structures.rs scope="impl<E: Pairing> CommitterKey<E>" name=shifted_powers props=C04,C08,C09
    pub fn shifted_powers(&self, degree_bound: Option<usize>) -> (r: Option<kzg10::Powers>)
    requires
        sonic_ck_wf(self),
    ensures
        (r is Some) == (self.shifted_powers_of_g is Some && self.shifted_powers_of_gamma_g is Some),
        // the window for bound d starts at (largest enforced bound - d); the hiding powers are the ones trimmed for that bound
        (r is Some && degree_bound is Some) ==> (self.enforced_degree_bounds->Some_0@.contains(degree_bound->Some_0)
            && r->Some_0.powers_of_g@ == self.shifted_powers_of_g->Some_0@.subrange(self.enforced_degree_bounds->Some_0@.last() - degree_bound->Some_0, self.shifted_powers_of_g->Some_0@.len() as int)
            && r->Some_0.powers_of_gamma_g@ == self.shifted_powers_of_gamma_g->Some_0@[degree_bound->Some_0]@),   // name=sonic_pc.ck.shifted_powers.window_start_and_hiding_powers_of_that_bound props=C04,C08
        (r is Some && degree_bound is None) ==> r->Some_0.powers_of_g@ =~= self.shifted_powers_of_g->Some_0@
            && r->Some_0.powers_of_gamma_g@ == self.shifted_powers_of_gamma_g->Some_0@[self.enforced_degree_bounds->Some_0@.last()]@,   // name=sonic_pc.ck.shifted_powers.full_window props=C04
//@body
//@rw 1 /degree_bound\.into\(\)/ => degree_bound
//@rw 1 /(?s)assert!\(self\s*\.enforced_degree_bounds\s*\.as_ref\(\)\s*\.unwrap\(\)\s*\.contains\(&degree_bound\)\)/ => rassert!(contains_usize(self.enforced_degree_bounds.as_ref().unwrap().as_slice(), &degree_bound))
//@rw 1 /shifted_powers_of_g\[powers_range\.clone\(\)\]\.into\(\)/ => cow_from_slice(&shifted_powers_of_g[powers_range])
//@rw 1 /shifted_powers_of_gamma_g\[([^\]]+)\]\.clone\(\)\.into\(\)/ => btree_index_vec_g1(shifted_powers_of_gamma_g, \1)
//@end
//@fn id=sonic_pc.CommitterKey.supported_degree file=poly-commit/src/sonic_pc/data_structures.rs scope="impl<E: Pairing> PCCommitterKey for CommitterKey<E>" name=supported_degree props=C09
    pub fn supported_degree(&self) -> (r: usize)
    requires
        self.powers_of_g@.len() >= 1,
    ensures
        r == self.powers_of_g@.len() - 1,   // name=sonic_pc.ck.supported_degree.truthful props=C09
//@body
//@end
}
// Sonic commits a degree-bounded polynomial ONLY under the shifted window for its bound (no separate plain commitment)
pub open spec fn sonic_commit_one(ck: &CommitterKey, p: &LabeledPolynomial, c: &LabeledCommitment<kzg10::Commitment>, st: &kzg10::Randomness) -> bool {
    c.label == p.label && c.degree_bound == p.degree_bound
    && (p.degree_bound is None ==> c.commitment.0@ == f_add(msm(ck.powers_of_g@, p.polynomial.cv(), p.polynomial.len()),
            msm(ck.powers_of_gamma_g@, st.blinding_polynomial.cv(), min(ck.powers_of_gamma_g@.len(), st.blinding_polynomial.len()))))
    && (p.degree_bound is Some ==> {
            let w = ck.shifted_powers_of_g->Some_0@.subrange(ck.enforced_degree_bounds->Some_0@.last() - p.degree_bound->Some_0, ck.shifted_powers_of_g->Some_0@.len() as int);
            let gw = ck.shifted_powers_of_gamma_g->Some_0@[p.degree_bound->Some_0]@;
            c.commitment.0@ == f_add(msm(w, p.polynomial.cv(), p.polynomial.len()), msm(gw, st.blinding_polynomial.cv(), min(gw.len(), st.blinding_polynomial.len()))) })
    && (p.hiding_bound is None ==> st.blinding_polynomial.len() == 0)
    && (p.hiding_bound is Some ==> st.blinding_polynomial.len() == p.hiding_bound->Some_0 + 2)
}
pub open spec fn sonic_admissible(ck: &CommitterKey, p: &LabeledPolynomial) -> bool {
    p.degree_bound is Some ==> (ck.enforced_degree_bounds is Some && ck.enforced_degree_bounds->Some_0@.contains(p.degree_bound->Some_0)
            && p.polynomial.degree_spec() <= p.degree_bound->Some_0 && p.degree_bound->Some_0 <= ck.max_degree)
}
pub open spec fn sonic_in_domain(ck: &CommitterKey, p: &LabeledPolynomial, has_rng: bool) -> bool {
    p.polynomial.degree_spec() + 1 <= ck.powers_of_g@.len() && sonic_admissible(ck, p)
    && (p.hiding_bound is Some ==> (has_rng && match p.degree_bound {
            Some(d) => p.hiding_bound->Some_0 + 1 < ck.shifted_powers_of_gamma_g->Some_0@[d]@.len(),
            None => p.hiding_bound->Some_0 + 1 < ck.powers_of_gamma_g@.len() }))
}
impl SonicKZG10 {
//@fn id=sonic_pc.commit file=poly-commit/src/sonic_pc/mod.rs scope="impl<E, P> PolynomialCommitment<E::ScalarField, P> for SonicKZG10<E, P>" name=commit props=C08,C04,C07,C17,C01,C19
    fn commit<'a>(ck: &CommitterKey, polynomials: Vec<&'a LabeledPolynomial>, rng: Option<&mut Rng>) -> (res: Result<(Vec<LabeledCommitment<kzg10::Commitment>>, Vec<kzg10::Randomness>), Error>)
    requires
        sonic_ck_wf(ck),
        forall|i: int| 0 <= i < polynomials@.len() ==> (#[trigger] polynomials@[i]).polynomial.wf() && polynomials@[i].polynomial.coeffs@.len() < usize::MAX
            && (polynomials@[i].hiding_bound is Some ==> polynomials@[i].hiding_bound->Some_0 < usize::MAX - 1),
    ensures
        res is Ok ==> (forall|i: int| 0 <= i < polynomials@.len() ==> sonic_admissible(ck, (#[trigger] polynomials@[i]))),   // name=sonic_pc.commit.bound_violations_are_refused props=C04,C17,C19
        res is Ok ==> res->Ok_0.0@.len() == polynomials@.len() && res->Ok_0.1@.len() == polynomials@.len(),   // name=sonic_pc.commit.one_commitment_and_state_per_polynomial props=C01,C19
        res is Ok ==> (forall|i: int| 0 <= i < polynomials@.len() ==> sonic_commit_one(ck, (#[trigger] polynomials@[i]), &res->Ok_0.0@[i], &res->Ok_0.1@[i])),   // name=sonic_pc.commit.commitments_are_the_key_defined_linear_maps props=C08,C04,C07,C01,C19
        (res is Ok && rng is None) ==> (forall|i: int| 0 <= i < polynomials@.len() ==> (#[trigger] polynomials@[i]).hiding_bound is None),   // name=sonic_pc.commit.hiding_without_rng_never_succeeds props=C07,C17,C19
        res is Err ==> (exists|i: int| 0 <= i < polynomials@.len() && !(sonic_in_domain(ck, #[trigger] polynomials@[i], rng is Some))),   // name=sonic_pc.commit.only_out_of_domain_requests_are_refused props=C17,C01,C19
//@body
//@rw * /&mut crate::optional_rng::OptionalRng\(rng\)/ => &mut optional_rng_wrap(rng)
//@rw * /Some\(rng\)/ => Some(&mut *rng)
//@rw * /ck\.shifted_powers\(degree_bound\)\.unwrap\(\)/ => ck.shifted_powers(Some(degree_bound)).unwrap()
//@rw * /label\.to_string\(\)/ => string_to_string(label)
//@closure |bounds| => |bounds: &Vec<usize>| -> (sl: &[usize]) ensures sl@ == bounds@
//@after start
        let ghost rng_present = rng is Some;
//@loop 1 kw=for name=it
            invariant sonic_ck_wf(ck), it.index@ <= polynomials@.len(), labeled_comms@.len() == it.index@, randomness@.len() == it.index@,
                rng.present@ ==> rng_present,
                forall|i: int| 0 <= i < polynomials@.len() ==> (#[trigger] polynomials@[i]).polynomial.wf() && polynomials@[i].polynomial.coeffs@.len() < usize::MAX
                    && (polynomials@[i].hiding_bound is Some ==> polynomials@[i].hiding_bound->Some_0 < usize::MAX - 1),
                forall|i: int| 0 <= i < it.index@ ==> sonic_admissible(ck, (#[trigger] polynomials@[i])) && sonic_commit_one(ck, polynomials@[i], &labeled_comms@[i], &randomness@[i])
                    && (polynomials@[i].hiding_bound is Some ==> rng_present),
//@end
}
// challenge-weighted combination the prover opens: sum_j xi_j * p_j  (xi_0 squeezed before the loop, xi_{j+1} after polynomial j)
pub open spec fn sonic_comb_ev(ps: Seq<&LabeledPolynomial>, s: SS, k: nat, x: FS) -> FS decreases k {
    if k == 0 { f_zero() } else { f_add(sonic_comb_ev(ps, s, (k - 1) as nat, x), f_mul(sp_chal(s, (k - 1) as nat), ps[k - 1].polynomial.ev(x))) }
}
pub open spec fn sonic_comb_rand_ev(rs: Seq<&kzg10::Randomness>, s: SS, k: nat, x: FS) -> FS decreases k {
    if k == 0 { f_zero() } else { f_add(sonic_comb_rand_ev(rs, s, (k - 1) as nat, x), f_mul(sp_chal(s, (k - 1) as nat), rs[k - 1].blinding_polynomial.ev(x))) }
}
pub open spec fn sonic_max_rlen(rs: Seq<&kzg10::Randomness>, k: nat) -> nat decreases k {
    if k == 0 { 0 } else { let a = sonic_max_rlen(rs, (k - 1) as nat); let b = rs[k - 1].blinding_polynomial.len(); if a >= b { a } else { b } }
}
pub struct SonicKZG10;
impl SonicKZG10 {
//@fn id=sonic_pc.open file=poly-commit/src/sonic_pc/mod.rs scope="impl<E, P> PolynomialCommitment<E::ScalarField, P> for SonicKZG10<E, P>" name=open props=C11,C01,C04,C17,C19
    fn open<'a>(ck: &CommitterKey, labeled_polynomials: Vec<&'a LabeledPolynomial>, _commitments: Vec<&'a LabeledCommitment<kzg10::Commitment>>, point: &'a Fr, sponge: &mut Sponge,
                states: Vec<&'a kzg10::Randomness>, _rng: Option<&mut Rng>) -> (res: Result<kzg10::Proof, Error>)
    requires
        ck.powers_of_g@.len() >= 1,
        ck.enforced_degree_bounds is Some ==> sorted_usize(ck.enforced_degree_bounds->Some_0@),
        forall|i: int| 0 <= i < labeled_polynomials@.len() ==> (#[trigger] labeled_polynomials@[i]).polynomial.coeffs@.len() < usize::MAX,
    ensures
        // exactly one challenge before the loop and one per polynomial - for EVERY polynomial, as the verifier does per commitment
        res is Ok ==> final(sponge).st@ == sp_iter(old(sponge).st@, 1 + min(labeled_polynomials@.len(), states@.len())),   // name=sonic_pc.open.squeeze_schedule_matches_verifier props=C11,C19
        // the proof is the KZG10 opening of the challenge-weighted combination of ALL polynomials (and of their randomness)
        res is Ok ==> (exists|cp: Poly, cr: kzg10::Randomness| #![trigger kzg10::open_spec_seq(ck.powers_of_g@, ck.powers_of_gamma_g@, &cp, *point, &cr, res->Ok_0)]
            (forall|x: FS| #[trigger] cp.ev(x) == sonic_comb_ev(labeled_polynomials@, old(sponge).st@, min(labeled_polynomials@.len(), states@.len()), x))
            && (forall|x: FS| #[trigger] cr.blinding_polynomial.ev(x) == sonic_comb_rand_ev(states@, old(sponge).st@, min(labeled_polynomials@.len(), states@.len()), x))
            && cr.blinding_polynomial.len() <= sonic_max_rlen(states@, min(labeled_polynomials@.len(), states@.len()))
            && kzg10::open_spec_seq(ck.powers_of_g@, ck.powers_of_gamma_g@, &cp, *point, &cr, res->Ok_0)),   // name=sonic_pc.open.opens_the_challenge_weighted_combination props=C01,C11,C19
        res is Ok ==> sonic_open_post(ck, labeled_polynomials@, states@, *point, old(sponge).st@, min(labeled_polynomials@.len(), states@.len()), res->Ok_0),   // name=sonic_pc.open.post_as_used_by_the_completeness_lemma props=C01,C19
        res is Ok ==> (forall|i: int| 0 <= i < min(labeled_polynomials@.len(), states@.len()) ==> ((#[trigger] labeled_polynomials@[i]).degree_bound is Some ==>
            (ck.enforced_degree_bounds is Some && ck.enforced_degree_bounds->Some_0@.contains(labeled_polynomials@[i].degree_bound->Some_0)
             && labeled_polynomials@[i].polynomial.degree_spec() <= labeled_polynomials@[i].degree_bound->Some_0 && labeled_polynomials@[i].degree_bound->Some_0 <= ck.max_degree))),   // name=sonic_pc.open.bound_violations_are_refused props=C04,C17,C19
//@body
//@rw * /\b(combined_polynomial|combined_rand) \+= \((curr_challenge), ([^;]*)\);/ => \1.add_assign_scaled((\2, \3));
//@closure |bounds| => |bounds: &Vec<usize>| -> (sl: &[usize]) ensures sl@ == bounds@
//@loop 1 kw=for name=it
            invariant it.index@ <= min(labeled_polynomials@.len(), states@.len()), ck.powers_of_g@.len() >= 1,
                ck.enforced_degree_bounds is Some ==> sorted_usize(ck.enforced_degree_bounds->Some_0@),
                forall|i: int| 0 <= i < labeled_polynomials@.len() ==> (#[trigger] labeled_polynomials@[i]).polynomial.coeffs@.len() < usize::MAX,
                sponge.st@ == sp_iter(old(sponge).st@, 1 + it.index@ as nat),
                curr_challenge@ == sp_chal(old(sponge).st@, it.index@ as nat),
                combined_polynomial.wf(), combined_polynomial.coeffs@.len() < usize::MAX,
                forall|x: FS| #[trigger] combined_polynomial.ev(x) == sonic_comb_ev(labeled_polynomials@, old(sponge).st@, it.index@ as nat, x),
                forall|x: FS| #[trigger] combined_rand.blinding_polynomial.ev(x) == sonic_comb_rand_ev(states@, old(sponge).st@, it.index@ as nat, x),
                combined_rand.blinding_polynomial.len() <= sonic_max_rlen(states@, it.index@ as nat),
                forall|i: int| 0 <= i < it.index@ ==> ((#[trigger] labeled_polynomials@[i]).degree_bound is Some ==>
                    (ck.enforced_degree_bounds is Some && ck.enforced_degree_bounds->Some_0@.contains(labeled_polynomials@[i].degree_bound->Some_0)
                     && labeled_polynomials@[i].polynomial.degree_spec() <= labeled_polynomials@[i].degree_bound->Some_0 && labeled_polynomials@[i].degree_bound->Some_0 <= ck.max_degree)),
//@loopstart 1
            proof { reveal_with_fuel(sp_iter, 3); }
//@after /let mut curr_challenge =/
        proof { reveal_with_fuel(sp_iter, 3); broadcast use ax_mul_comm; }
//@end
}

// ---------------- completeness of SonicKZG10 over the contracts of commit, open (this file) and check (units/sonic.rs) ----------------
//@struct file=poly-commit/src/sonic_pc/data_structures.rs name=VerifierKey
pub type Commitment = kzg10::Commitment;
//@spec sonic_spec
pub open spec fn sonic_off(ck: &CommitterKey, d: Option<usize>) -> nat { match d { Some(b) => (ck.max_degree - b) as nat, None => 0 } }
// the key elements a polynomial with bound d is committed under (as in sonic_commit_one)
pub open spec fn sonic_w(ck: &CommitterKey, d: Option<usize>) -> Seq<G1Affine> { match d {
    Some(b) => ck.shifted_powers_of_g->Some_0@.subrange(ck.enforced_degree_bounds->Some_0@.last() - b, ck.shifted_powers_of_g->Some_0@.len() as int), None => ck.powers_of_g@ } }
pub open spec fn sonic_gw(ck: &CommitterKey, d: Option<usize>) -> Seq<G1Affine> { match d { Some(b) => ck.shifted_powers_of_gamma_g->Some_0@[b]@, None => ck.powers_of_gamma_g@ } }
// HYPOTHESIS: keys in trapdoor form (what setup + trim produce: units/kzg10_setup.rs, units/sonic_trim.rs): powers g beta^i and gamma g beta^i, beta h,
// the window for bound d starting at beta^(D - d), and the verifier's shift element for d the matching NEGATIVE power of h:  beta^(D-d) * shift_d == h
pub open spec fn sonic_srs_ok(ck: &CommitterKey, vk: &VerifierKey, beta: FS) -> bool {
    geometric(g1views(ck.powers_of_g@), vk.g@, beta, 0) && geometric(g1views(ck.powers_of_gamma_g@), vk.gamma_g@, beta, 0) && vk.prepared_beta_h@ == f_mul(vk.prepared_h@, beta)
}
pub open spec fn sonic_bound_ok(ck: &CommitterKey, vk: &VerifierKey, beta: FS, d: Option<usize>) -> bool {
    d is Some ==> (d->Some_0 <= ck.max_degree
        && geometric(g1views(sonic_w(ck, d)), vk.g@, beta, sonic_off(ck, d)) && geometric(g1views(sonic_gw(ck, d)), vk.gamma_g@, beta, sonic_off(ck, d))
        && sonic_shift_of(vk, d->Some_0) is Some && f_mul(f_pow(beta, sonic_off(ck, d)), sonic_shift_of(vk, d->Some_0)->Some_0) == vk.prepared_h@)
}
pub open spec fn sonic_one_ok(ck: &CommitterKey, vk: &VerifierKey, beta: FS, p: &LabeledPolynomial, c: &LabeledCommitment<Commitment>, st: &kzg10::Randomness) -> bool {
    sonic_bound_ok(ck, vk, beta, p.degree_bound) && sonic_commit_one(ck, p, c, st)
    && p.polynomial.len() <= sonic_w(ck, p.degree_bound).len() && st.blinding_polynomial.len() <= sonic_gw(ck, p.degree_bound).len()
    && st.blinding_polynomial.len() <= ck.powers_of_gamma_g@.len()
}
pub open spec fn sonic_cval(vk: &VerifierKey, beta: FS, p: &LabeledPolynomial, st: &kzg10::Randomness) -> FS {
    f_add(f_mul(vk.g@, p.polynomial.ev(beta)), f_mul(vk.gamma_g@, st.blinding_polynomial.ev(beta)))
}
// ((g e) P + (c e) R) sh == (g P + c R) (e sh)
proof fn lemma_sonic_shift_alg(g: FS, c: FS, e: FS, pp: FS, rr: FS, sh: FS)
    ensures f_mul(f_add(f_mul(f_mul(g, e), pp), f_mul(f_mul(c, e), rr)), sh) == f_mul(f_add(f_mul(g, pp), f_mul(c, rr)), f_mul(e, sh))
{
    // (g e) P = (g P) e
    ax_mul_assoc(g, e, pp); ax_mul_comm(e, pp); ax_mul_assoc(g, pp, e);
    ax_mul_assoc(c, e, rr); ax_mul_comm(e, rr); ax_mul_assoc(c, rr, e);
    let x = f_mul(g, pp); let y = f_mul(c, rr);
    ax_mul_comm(f_add(x, y), e); ax_distrib(e, x, y); ax_mul_comm(e, x); ax_mul_comm(e, y);
    assert(f_add(f_mul(f_mul(g, e), pp), f_mul(f_mul(c, e), rr)) == f_mul(f_add(x, y), e));
    ax_mul_assoc(f_add(x, y), e, sh);
}
proof fn lemma_sonic_one(ck: &CommitterKey, vk: &VerifierKey, beta: FS, p: &LabeledPolynomial, c: &LabeledCommitment<Commitment>, st: &kzg10::Randomness)
    requires sonic_srs_ok(ck, vk, beta), sonic_one_ok(ck, vk, beta, p, c, st)
    ensures f_mul(c.commitment.0@, sonic_shift(vk, c.degree_bound)) == f_mul(sonic_cval(vk, beta, p, st), vk.prepared_h@)
{
    let d = p.degree_bound; let w = sonic_w(ck, d); let gw = sonic_gw(ck, d); let off = sonic_off(ck, d); let e = f_pow(beta, off);
    let g = vk.g@; let cc = vk.gamma_g@; let h = vk.prepared_h@; let sh = sonic_shift(vk, d); let r = st.blinding_polynomial;
    lemma_dot_geometric(g1views(w), g, beta, off, p.polynomial.cv(), p.polynomial.len());
    lemma_dot_geometric(g1views(gw), cc, beta, off, r.cv(), r.len());
    assert(c.commitment.0@ == f_add(f_mul(f_mul(g, e), p.polynomial.ev(beta)), f_mul(f_mul(cc, e), r.ev(beta))));
    lemma_sonic_shift_alg(g, cc, e, p.polynomial.ev(beta), r.ev(beta), sh);
    if d is None { ax_mul_comm(f_one(), h); ax_mul_one(h); }
    assert(f_mul(e, sh) == h);
}
// g (a + xi P) + c (b + xi R) == (g a + c b) + xi (g P + c R)
proof fn lemma_sonic_lin_alg(g: FS, c: FS, a: FS, b: FS, xi: FS, pp: FS, rr: FS)
    ensures f_add(f_mul(g, f_add(a, f_mul(xi, pp))), f_mul(c, f_add(b, f_mul(xi, rr)))) == f_add(f_add(f_mul(g, a), f_mul(c, b)), f_mul(xi, f_add(f_mul(g, pp), f_mul(c, rr))))
{
    ax_distrib(g, a, f_mul(xi, pp)); ax_distrib(c, b, f_mul(xi, rr));
    ax_mul_assoc(g, xi, pp); ax_mul_comm(g, xi); ax_mul_assoc(xi, g, pp);
    ax_mul_assoc(c, xi, rr); ax_mul_comm(c, xi); ax_mul_assoc(xi, c, rr);
    lemma_add_swap(f_mul(g, a), f_mul(xi, f_mul(g, pp)), f_mul(c, b), f_mul(xi, f_mul(c, rr)));
    ax_distrib(xi, f_mul(g, pp), f_mul(c, rr));
}
proof fn lemma_sonic_csum(ck: &CommitterKey, vk: &VerifierKey, beta: FS, lps: Seq<&LabeledPolynomial>, cs: Seq<&LabeledCommitment<Commitment>>, sts: Seq<&kzg10::Randomness>, s: SS, n: nat)
    requires n <= lps.len(), n <= cs.len(), n <= sts.len(), sonic_srs_ok(ck, vk, beta), forall|i: int| 0 <= i < n ==> sonic_one_ok(ck, vk, beta, #[trigger] lps[i], cs[i], sts[i])
    ensures sonic_csum(cs, s, vk, n) == f_mul(f_add(f_mul(vk.g@, sonic_comb_ev(lps, s, n, beta)), f_mul(vk.gamma_g@, sonic_comb_rand_ev(sts, s, n, beta))), vk.prepared_h@)
    decreases n
{
    let g = vk.g@; let cc = vk.gamma_g@; let h = vk.prepared_h@;
    if n == 0 { lemma_mul_zero(g); lemma_mul_zero(cc); ax_add_zero(f_zero()); ax_mul_comm(f_zero(), h); lemma_mul_zero(h); }
    else {
        let j = (n - 1) as nat; let ji = j as int; let xi = sp_chal(s, j);
        lemma_sonic_csum(ck, vk, beta, lps, cs, sts, s, j);
        assert(sonic_one_ok(ck, vk, beta, lps[ji], cs[ji], sts[ji]));
        lemma_sonic_one(ck, vk, beta, lps[ji], cs[ji], sts[ji]);
        let cv = sonic_cval(vk, beta, lps[ji], sts[ji]); let cm = cs[ji].commitment.0@; let sh = sonic_shift(vk, cs[ji].degree_bound);
        // (C xi) sh == (xi cval) h
        ax_mul_comm(cm, xi); ax_mul_assoc(xi, cm, sh); ax_mul_assoc(xi, cv, h);
        let a = sonic_comb_ev(lps, s, j, beta); let b = sonic_comb_rand_ev(sts, s, j, beta);
        lemma_sonic_lin_alg(g, cc, a, b, xi, lps[ji].polynomial.ev(beta), sts[ji].blinding_polynomial.ev(beta));
        let prev = f_add(f_mul(g, a), f_mul(cc, b));
        ax_mul_comm(f_add(prev, f_mul(xi, cv)), h); ax_distrib(h, prev, f_mul(xi, cv)); ax_mul_comm(h, prev); ax_mul_comm(h, f_mul(xi, cv));
    }
}
proof fn lemma_sonic_values(lps: Seq<&LabeledPolynomial>, vs: Seq<Fr>, z: FS, s: SS, n: nat)
    requires n <= lps.len(), n <= vs.len(), forall|i: int| 0 <= i < n ==> (#[trigger] vs[i])@ == lps[i].polynomial.ev(z)
    ensures sonic_values(vs, s, n) == sonic_comb_ev(lps, s, n, z)
    decreases n
{ if n > 0 { lemma_sonic_values(lps, vs, z, s, (n - 1) as nat); ax_mul_comm(vs[n - 1]@, sp_chal(s, (n - 1) as nat)); } }
// with A = w (b - z) + gV + cRV:   A h + (-(0 + ((gV - w z) + cRV))) h + (-(0 + w)) (h b) == 0
proof fn lemma_sonic_final_alg(w: FS, b: FS, z: FS, gv: FS, crv: FS, h: FS)
    ensures f_add(f_add(f_mul(f_add(f_add(f_mul(w, f_sub(b, z)), gv), crv), h), f_mul(f_neg(f_add(f_zero(), f_add(f_sub(gv, f_mul(w, z)), crv))), h)), f_mul(f_neg(f_add(f_zero(), w)), f_mul(h, b))) == f_zero()
{
    let wb = f_mul(w, b); let wz = f_mul(w, z);
    lemma_distrib_sub(w, b, z);
    let a = f_add(f_add(f_sub(wb, wz), gv), crv); let adj = f_add(f_sub(gv, wz), crv);
    ax_add_comm(f_zero(), adj); ax_add_zero(adj); ax_add_comm(f_zero(), w); ax_add_zero(w);
    // a - adj == wb
    assert(f_add(a, f_neg(adj)) == wb) by {
        // a = ((wb - wz) + gv) + crv ; adj = (gv - wz) + crv
        lemma_neg_add(f_sub(gv, wz), crv); lemma_neg_add(gv, f_neg(wz)); lemma_neg_neg(wz);
        // -adj = (-gv + wz) + -crv
        let na = f_add(f_add(f_neg(gv), wz), f_neg(crv));
        assert(f_neg(adj) == na);
        // ((wb + -wz) + gv) + crv + ((-gv + wz) + -crv)
        ax_add_assoc(f_add(f_sub(wb, wz), gv), crv, na);
        ax_add_comm(f_add(f_neg(gv), wz), f_neg(crv)); ax_add_assoc(crv, f_neg(crv), f_add(f_neg(gv), wz)); ax_add_neg(crv);
        ax_add_comm(f_zero(), f_add(f_neg(gv), wz)); ax_add_zero(f_add(f_neg(gv), wz));
        assert(f_add(crv, na) == f_add(f_neg(gv), wz));
        ax_add_assoc(f_sub(wb, wz), gv, f_add(f_neg(gv), wz));
        ax_add_assoc(gv, f_neg(gv), wz); ax_add_neg(gv); ax_add_comm(f_zero(), wz); ax_add_zero(wz);
        assert(f_add(gv, f_add(f_neg(gv), wz)) == wz);
        ax_add_assoc(wb, f_neg(wz), wz); ax_add_comm(f_neg(wz), wz); ax_add_neg(wz); ax_add_zero(wb);
    }
    // a h + (-adj) h == (a - adj) h == wb h ;  (-w)(h b) == -(wb h)
    ax_mul_comm(f_add(a, f_neg(adj)), h); ax_distrib(h, a, f_neg(adj)); ax_mul_comm(h, a); ax_mul_comm(h, f_neg(adj));
    lemma_neg_mul(w, f_mul(h, b));
    ax_mul_comm(h, b); ax_mul_assoc(w, b, h);
    ax_add_neg(f_mul(wb, h));
}
// what `open` guarantees (the text of its postcondition sonic_pc.open.opens_the_challenge_weighted_combination)
pub open spec fn sonic_open_post(ck: &CommitterKey, lps: Seq<&LabeledPolynomial>, sts: Seq<&kzg10::Randomness>, z: Fr, s: SS, n: nat, pr: kzg10::Proof) -> bool {
    exists|cp: Poly, cr: kzg10::Randomness| #![trigger kzg10::open_spec_seq(ck.powers_of_g@, ck.powers_of_gamma_g@, &cp, z, &cr, pr)]
        (forall|x: FS| #[trigger] cp.ev(x) == sonic_comb_ev(lps, s, n, x))
        && (forall|x: FS| #[trigger] cr.blinding_polynomial.ev(x) == sonic_comb_rand_ev(sts, s, n, x))
        && cr.blinding_polynomial.len() <= sonic_max_rlen(sts, n)
        && kzg10::open_spec_seq(ck.powers_of_g@, ck.powers_of_gamma_g@, &cp, z, &cr, pr)
}
proof fn lemma_sonic_max_rlen(sts: Seq<&kzg10::Randomness>, n: nat, bound: nat)
    requires n <= sts.len(), forall|i: int| 0 <= i < n ==> (#[trigger] sts[i]).blinding_polynomial.len() <= bound
    ensures sonic_max_rlen(sts, n) <= bound
    decreases n
{ if n > 0 { lemma_sonic_max_rlen(sts, (n - 1) as nat, bound); } }
// the equation `check_elems` decides, for a list `e` of the bucket map's entries
pub open spec fn sonic_check_eq(e: Seq<(Option<usize>, G1)>, vk: &VerifierKey, z: FS, pr: &kzg10::Proof, cv: FS) -> bool {
    f_add(f_add(sonic_pairing_sum(e, vk, e.len()), pair(f_neg(f_add(f_zero(), sonic_adjusted(vk, z, pr, cv))), vk.prepared_h@)), pair(f_neg(f_add(f_zero(), pr.w@)), vk.prepared_beta_h@)) == f_zero()
}
//@lemma props=C01
// COMPLETENESS: keys in trapdoor form, commitments as `commit` returns them, the proof as `open` returns it, the true values  ==>  the equation `check` decides holds,
// for ANY enumeration e of the verifier's bucket map (distinct keys, one entry per bound present, entry value = 0 + bucket: what `accumulate_elems` / BTreeMap::into_iter give)
pub proof fn lemma_sonic_complete(ck: &CommitterKey, vk: &VerifierKey, beta: FS, lps: Seq<&LabeledPolynomial>, cs: Seq<&LabeledCommitment<Commitment>>, sts: Seq<&kzg10::Randomness>,
                                  vs: Seq<Fr>, z: Fr, s: SS, pr: kzg10::Proof, e: Seq<(Option<usize>, G1)>)
    requires
        lps.len() == cs.len(), sts.len() == cs.len(), vs.len() == cs.len(),
        sonic_srs_ok(ck, vk, beta),
        forall|i: int| 0 <= i < cs.len() ==> sonic_one_ok(ck, vk, beta, #[trigger] lps[i], cs[i], sts[i]) && vs[i]@ == lps[i].polynomial.ev(z@),
        sonic_open_post(ck, lps, sts, z, s, cs.len(), pr),
        sonic_keys_distinct(e),
        forall|i: int| 0 <= i < cs.len() ==> sonic_has_key(e, (#[trigger] cs[i]).degree_bound, e.len()),
        forall|i: int| 0 <= i < e.len() ==> (#[trigger] e[i]).1@ == f_add(f_zero(), sonic_bucket(cs, s, None, e[i].0, cs.len())),
    ensures
        sonic_check_eq(e, vk, z@, &pr, sonic_values(vs, s, cs.len()))
{
    let n = cs.len(); let g = vk.g@; let cc = vk.gamma_g@; let h = vk.prepared_h@; let zz = z@;
    // left-hand side: the buckets regroup to the commitments, which are (g cp(beta) + c cr(beta)) h
    lemma_sonic_pairing_sum_is_bsum(e, cs, s, vk, n, e.len());
    lemma_sonic_bsum_total(e, cs, s, vk, n);
    lemma_sonic_csum(ck, vk, beta, lps, cs, sts, s, n);
    lemma_sonic_values(lps, vs, zz, s, n);
    let (cp, cr): (Poly, kzg10::Randomness) = choose|cp: Poly, cr: kzg10::Randomness| #![trigger kzg10::open_spec_seq(ck.powers_of_g@, ck.powers_of_gamma_g@, &cp, z, &cr, pr)]
        (forall|x: FS| #[trigger] cp.ev(x) == sonic_comb_ev(lps, s, n, x))
        && (forall|x: FS| #[trigger] cr.blinding_polynomial.ev(x) == sonic_comb_rand_ev(sts, s, n, x))
        && cr.blinding_polynomial.len() <= sonic_max_rlen(sts, n)
        && kzg10::open_spec_seq(ck.powers_of_g@, ck.powers_of_gamma_g@, &cp, z, &cr, pr);
    let r = cr.blinding_polynomial; let pg = ck.powers_of_g@; let pgam = ck.powers_of_gamma_g@;
    assert(cp.ev(beta) == sonic_comb_ev(lps, s, n, beta) && cp.ev(zz) == sonic_comb_ev(lps, s, n, zz));
    assert(r.ev(beta) == sonic_comb_rand_ev(sts, s, n, beta) && r.ev(zz) == sonic_comb_rand_ev(sts, s, n, zz));
    assert forall|i: int| 0 <= i < n implies (#[trigger] sts[i]).blinding_polynomial.len() <= pgam.len() by { assert(sonic_one_ok(ck, vk, beta, lps[i], cs[i], sts[i])); }
    lemma_sonic_max_rlen(sts, n, pgam.len());
    let (w, hw): (Poly, Option<Poly>) = choose|w: Poly, hw: Option<Poly>| #![trigger w.cv(), hw.is_some()]
        (forall|x: FS| cp.ev(x) == f_add(f_mul(#[trigger] w.ev(x), f_sub(x, zz)), cp.ev(zz)))
        && (hw is Some) == !r.is_zero_spec()
        && (hw is Some ==> (forall|x: FS| r.ev(x) == f_add(f_mul(#[trigger] hw->Some_0.ev(x), f_sub(x, zz)), r.ev(zz))))
        && pr.w@ == f_add(msm(pg, w.cv(), w.len()), match hw { Some(hh) => msm(pgam, hh.cv(), min(pgam.len(), hh.len())), None => f_zero() })
        && (pr.random_v is Some) == (hw is Some)
        && (hw is Some ==> pr.random_v->Some_0@ == r.ev(zz))
        && w.len() <= pg.len()
        && (hw is Some ==> hw->Some_0.len() + 1 <= r.len() || hw->Some_0.len() == 0);
    let d = f_sub(beta, zz); let wb = w.ev(beta); let pz = cp.ev(zz); let rz = r.ev(zz);
    assert(f_mul(g, f_pow(beta, 0)) == g) by { ax_mul_one(g); }
    assert(f_mul(cc, f_pow(beta, 0)) == cc) by { ax_mul_one(cc); }
    lemma_dot_geometric(g1views(pg), g, beta, 0, w.cv(), w.len());
    assert(cp.ev(beta) == f_add(f_mul(wb, d), pz));
    let gv = f_mul(g, pz);
    match hw {
        Some(hh) => {
            let hb = hh.ev(beta);
            lemma_dot_geometric(g1views(pgam), cc, beta, 0, hh.cv(), hh.len());
            assert(r.ev(beta) == f_add(f_mul(hb, d), rz));
            assert(pr.w@ == f_add(f_mul(g, wb), f_mul(cc, hb)));
            let crv = f_mul(cc, rz);
            // g (wb d + pz) + c (hb d + rz) == (w d + g pz) + c rz
            ax_distrib(g, f_mul(wb, d), pz); ax_distrib(cc, f_mul(hb, d), rz);
            ax_mul_assoc(g, wb, d); ax_mul_assoc(cc, hb, d);
            lemma_add_swap(f_mul(f_mul(g, wb), d), gv, f_mul(f_mul(cc, hb), d), crv);
            ax_mul_comm(pr.w@, d); ax_distrib(d, f_mul(g, wb), f_mul(cc, hb)); ax_mul_comm(d, f_mul(g, wb)); ax_mul_comm(d, f_mul(cc, hb));
            ax_add_assoc(f_mul(pr.w@, d), gv, crv);
            lemma_sonic_final_alg(pr.w@, beta, zz, gv, crv, h);
        }
        None => {
            assert forall|i: int| 0 <= i < r.cv().len() implies r.cv()[i] == f_zero() by { assert(r.coeffs@[i]@ == f_zero()); }
            lemma_peval_zero(r.cv(), beta, r.len());
            lemma_mul_zero(cc); ax_add_zero(f_mul(g, cp.ev(beta))); ax_add_zero(f_mul(g, wb));
            assert(pr.w@ == f_mul(g, wb));
            ax_distrib(g, f_mul(wb, d), pz); ax_mul_assoc(g, wb, d);
            // reuse the closing identity with c rv = 0
            lemma_sonic_final_alg(pr.w@, beta, zz, gv, f_zero(), h);
            ax_add_zero(f_add(f_mul(pr.w@, d), gv)); ax_add_zero(f_sub(gv, f_mul(pr.w@, zz)));
        }
    }
}
