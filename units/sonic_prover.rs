// SonicKZG10 prover side: CommitterKey::{powers, supported_degree}, open  (C11, C01, C04, C08, C09)
//@use core ops_gen poly labeled labeled_comm sponge std
//@spec ring
//@typemap /::<E, P>::/ => ::
//@typemap /<E>/ => 
//@typemap /\bP::Point\b/ => Fr
//@typemap /\bP::/ => Poly::
//@typemap /: P,/ => : Poly,
//@typemap /Self::CommitterKey/ => CommitterKey
//@typemap /Self::Commitment/ => kzg10::Commitment
//@typemap /Self::CommitmentState/ => kzg10::Randomness
//@typemap /Self::Proof/ => kzg10::Proof
//@typemap /Self::Error/ => Error
//@typemap /PhantomData<F>/ => PhantomData<Fr>
//@typemap /\bPhantomData\b/ => core::marker::PhantomData
//@enum file=poly-commit/src/error.rs name=Error
pub mod kzg10 {
    use super::*;
//@struct file=poly-commit/src/kzg10/data_structures.rs name=Commitment
//@typemap /Cow<'a, \[E::G1Affine\]>/ => Vec<G1Affine>
//@struct file=poly-commit/src/kzg10/data_structures.rs name=Powers
//@struct file=poly-commit/src/kzg10/data_structures.rs name=Randomness
//@struct file=poly-commit/src/kzg10/data_structures.rs name=VerifierKey
//@struct file=poly-commit/src/kzg10/data_structures.rs name=Proof
//@spec kzg10_check_spec kzg10_commit_spec
    impl Randomness {
//@stub from=kzg10.rs id=kzg10.Randomness.empty
//@stub from=marlin_prover.rs id=kzg10.Randomness.add_assign_scaled
    }
    pub struct KZG10;
    impl KZG10 {
//@stub from=kzg10.rs id=kzg10.check_degrees_and_bounds
//@stub from=kzg10.rs id=kzg10.open
    }
}
//@struct file=poly-commit/src/sonic_pc/data_structures.rs name=CommitterKey
#[verifier::external_body] pub fn cow_from_slice(s: &[G1Affine]) -> (r: Vec<G1Affine>) ensures r@ == s@ { unimplemented!() }
impl Poly {
    #[verifier::external_body] pub fn add_assign_scaled(&mut self, q: (Fr, &Poly))
        ensures forall|x: FS| #[trigger] final(self).ev(x) == f_add(old(self).ev(x), f_mul(q.0@, q.1.ev(x))), final(self).wf(),
                final(self).coeffs@.len() <= (if old(self).coeffs@.len() >= q.1.coeffs@.len() { old(self).coeffs@.len() } else { q.1.coeffs@.len() }),
    { unimplemented!() }
}
impl CommitterKey {
//@fn id=sonic_pc.CommitterKey.powers file=poly-commit/src/sonic_pc/data_structures.rs scope="impl<E: Pairing> CommitterKey<E>" name=powers props=C08,C09
    pub fn powers(&self) -> (r: kzg10::Powers)
    ensures
        r.powers_of_g@ == self.powers_of_g@,                  // name=sonic_pc.ck.powers.plain_powers props=C08,C09
        r.powers_of_gamma_g@ == self.powers_of_gamma_g@,      // name=sonic_pc.ck.powers.gamma_powers props=C08,C09
//@body
//@rw * /(self\.\w+)\.as_slice\(\)\.into\(\)/ => cow_from_slice(\1.as_slice())
//@end
//@fn id=sonic_pc.CommitterKey.supported_degree file=poly-commit/src/sonic_pc/data_structures.rs scope="impl<E: Pairing> PCCommitterKey for CommitterKey<E>" name=supported_degree props=C09
    pub fn supported_degree(&self) -> (r: usize)
    requires
        self.powers_of_g@.len() >= 1,
    ensures
        r == self.powers_of_g@.len() - 1,   // name=sonic_pc.ck.supported_degree.truthful props=C09
//@body
//@end
}
// challenge-weighted combination the prover opens: sum_j xi_j * p_j  (xi_0 squeezed before the loop, xi_{j+1} after polynomial j)
pub open spec fn sonic_comb_ev(ps: Seq<&LabeledPolynomial>, s: SS, k: nat, x: FS) -> FS decreases k {
    if k == 0 { f_zero() } else { f_add(sonic_comb_ev(ps, s, (k - 1) as nat, x), f_mul(sp_chal(s, (k - 1) as nat), ps[k - 1].polynomial.ev(x))) }
}
pub open spec fn sonic_comb_rand_ev(rs: Seq<&kzg10::Randomness>, s: SS, k: nat, x: FS) -> FS decreases k {
    if k == 0 { f_zero() } else { f_add(sonic_comb_rand_ev(rs, s, (k - 1) as nat, x), f_mul(sp_chal(s, (k - 1) as nat), rs[k - 1].blinding_polynomial.ev(x))) }
}
pub struct SonicKZG10;
impl SonicKZG10 {
//@fn id=sonic_pc.open file=poly-commit/src/sonic_pc/mod.rs scope="impl<E, P> PolynomialCommitment<E::ScalarField, P> for SonicKZG10<E, P>" name=open props=C11,C01,C04,C17
    fn open<'a>(ck: &CommitterKey, labeled_polynomials: Vec<&'a LabeledPolynomial>, _commitments: Vec<&'a LabeledCommitment<kzg10::Commitment>>, point: &'a Fr, sponge: &mut Sponge,
                states: Vec<&'a kzg10::Randomness>, _rng: Option<&mut Rng>) -> (res: Result<kzg10::Proof, Error>)
    requires
        ck.powers_of_g@.len() >= 1,
        ck.enforced_degree_bounds is Some ==> sorted_usize(ck.enforced_degree_bounds->Some_0@),
        forall|i: int| 0 <= i < labeled_polynomials@.len() ==> (#[trigger] labeled_polynomials@[i]).polynomial.coeffs@.len() < usize::MAX,
    ensures
        // exactly one challenge before the loop and one per polynomial - for EVERY polynomial, as the verifier does per commitment
        res is Ok ==> final(sponge).st@ == sp_iter(old(sponge).st@, 1 + min(labeled_polynomials@.len(), states@.len())),   // name=sonic_pc.open.squeeze_schedule_matches_verifier props=C11
        // the proof is the KZG10 opening of the challenge-weighted combination of ALL polynomials (and of their randomness)
        res is Ok ==> (exists|cp: Poly, cr: kzg10::Randomness| #![trigger kzg10::open_spec_seq(ck.powers_of_g@, ck.powers_of_gamma_g@, &cp, *point, &cr, res->Ok_0)]
            (forall|x: FS| #[trigger] cp.ev(x) == sonic_comb_ev(labeled_polynomials@, old(sponge).st@, min(labeled_polynomials@.len(), states@.len()), x))
            && (forall|x: FS| #[trigger] cr.blinding_polynomial.ev(x) == sonic_comb_rand_ev(states@, old(sponge).st@, min(labeled_polynomials@.len(), states@.len()), x))
            && kzg10::open_spec_seq(ck.powers_of_g@, ck.powers_of_gamma_g@, &cp, *point, &cr, res->Ok_0)),   // name=sonic_pc.open.opens_the_challenge_weighted_combination props=C01,C11
        res is Ok ==> (forall|i: int| 0 <= i < min(labeled_polynomials@.len(), states@.len()) ==> ((#[trigger] labeled_polynomials@[i]).degree_bound is Some ==>
            (ck.enforced_degree_bounds is Some && ck.enforced_degree_bounds->Some_0@.contains(labeled_polynomials@[i].degree_bound->Some_0)
             && labeled_polynomials@[i].polynomial.degree_spec() <= labeled_polynomials@[i].degree_bound->Some_0 && labeled_polynomials@[i].degree_bound->Some_0 <= ck.max_degree))),   // name=sonic_pc.open.bound_violations_are_refused props=C04,C17
//@body
//@rw * /\b(combined_polynomial|combined_rand) \+= \((curr_challenge), ([^;]*)\);/ => \1.add_assign_scaled((\2, \3));
//@closure |bounds| => |bounds: &Vec<usize>| -> (sl: &[usize]) ensures sl@ == bounds@
//@loop 1 kw=for name=it
            invariant it.index@ <= min(labeled_polynomials@.len(), states@.len()), ck.powers_of_g@.len() >= 1,
                ck.enforced_degree_bounds is Some ==> sorted_usize(ck.enforced_degree_bounds->Some_0@),
                forall|i: int| 0 <= i < labeled_polynomials@.len() ==> (#[trigger] labeled_polynomials@[i]).polynomial.coeffs@.len() < usize::MAX,
                sponge.st@ == sp_iter(old(sponge).st@, 1 + it.index@ as nat),
                curr_challenge@ == sp_chal(old(sponge).st@, it.index@ as nat),
                combined_polynomial.wf(), combined_polynomial.coeffs@.len() < usize::MAX,
                forall|x: FS| #[trigger] combined_polynomial.ev(x) == sonic_comb_ev(labeled_polynomials@, old(sponge).st@, it.index@ as nat, x),
                forall|x: FS| #[trigger] combined_rand.blinding_polynomial.ev(x) == sonic_comb_rand_ev(states@, old(sponge).st@, it.index@ as nat, x),
                forall|i: int| 0 <= i < it.index@ ==> ((#[trigger] labeled_polynomials@[i]).degree_bound is Some ==>
                    (ck.enforced_degree_bounds is Some && ck.enforced_degree_bounds->Some_0@.contains(labeled_polynomials@[i].degree_bound->Some_0)
                     && labeled_polynomials@[i].polynomial.degree_spec() <= labeled_polynomials@[i].degree_bound->Some_0 && labeled_polynomials@[i].degree_bound->Some_0 <= ck.max_degree)),
//@loopstart 1
            proof { reveal_with_fuel(sp_iter, 3); }
//@after /let mut curr_challenge =/
        proof { reveal_with_fuel(sp_iter, 3); broadcast use ax_mul_comm; }
//@end
}
