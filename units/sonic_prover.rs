// SonicKZG10 prover side: CommitterKey::{powers, supported_degree}, open  (C11, C01, C04, C08, C09)
//@use core ops_gen poly labeled labeled_comm sponge std
//@spec ring
//@typemap /::<E, P>::/ => ::
//@typemap /<E>/ => 
//@typemap /\bP::Point\b/ => Fr
//@typemap /\bP::/ => Poly::
//@typemap /: P,/ => : Poly,
//@typemap /: &P =/ => : &Poly =
//@typemap /Self::CommitterKey/ => CommitterKey
//@typemap /Self::Commitment/ => kzg10::Commitment
//@typemap /Self::CommitmentState/ => kzg10::Randomness
//@typemap /Self::Proof/ => kzg10::Proof
//@typemap /Self::Error/ => Error
//@typemap /PhantomData<F>/ => PhantomData<Fr>
//@typemap /\bPhantomData\b/ => core::marker::PhantomData
//@enum file=poly-commit/src/error.rs name=Error
pub mod kzg10 {
    use super::*;
//@struct file=poly-commit/src/kzg10/data_structures.rs name=Commitment
//@typemap /Cow<'a, \[E::G1Affine\]>/ => Vec<G1Affine>
//@struct file=poly-commit/src/kzg10/data_structures.rs name=Powers
//@struct file=poly-commit/src/kzg10/data_structures.rs name=Randomness
//@struct file=poly-commit/src/kzg10/data_structures.rs name=VerifierKey
//@struct file=poly-commit/src/kzg10/data_structures.rs name=Proof
//@spec kzg10_check_spec kzg10_commit_spec
    impl Randomness {
//@stub from=kzg10.rs id=kzg10.Randomness.rand
//@stub from=kzg10.rs id=kzg10.Randomness.empty
//@stub from=marlin_prover.rs id=kzg10.Randomness.add_assign_scaled
    }
    pub struct KZG10;
    impl KZG10 {
//@stub from=kzg10.rs id=kzg10.commit
//@stub from=kzg10.rs id=kzg10.check_degrees_and_bounds
//@stub from=kzg10.rs id=kzg10.open
    }
}
//@struct file=poly-commit/src/sonic_pc/data_structures.rs name=CommitterKey
#[verifier::external_body] pub fn cow_from_slice(s: &[G1Affine]) -> (r: Vec<G1Affine>) ensures r@ == s@ { unimplemented!() }
impl Poly {
    #[verifier::external_body] pub fn add_assign_scaled(&mut self, q: (Fr, &Poly))
        ensures forall|x: FS| #[trigger] final(self).ev(x) == f_add(old(self).ev(x), f_mul(q.0@, q.1.ev(x))), final(self).wf(),
                final(self).coeffs@.len() <= (if old(self).coeffs@.len() >= q.1.coeffs@.len() { old(self).coeffs@.len() } else { q.1.coeffs@.len() }),
    { unimplemented!() }
}
// `m[&k].clone()` on BTreeMap<usize, Vec<G1Affine>>: panics (= diverges) if the key is absent
#[verifier::external_body] pub fn btree_index_vec_g1(m: &BTreeMap<usize, Vec<G1Affine>>, k: &usize) -> (r: Vec<G1Affine>) ensures m@.dom().contains(*k), r@ == m@[*k]@ { unimplemented!() }
// what SonicKZG10::trim establishes (units/sonic_trim.rs)
pub open spec fn sonic_ck_wf(ck: &CommitterKey) -> bool {
    ck.powers_of_g@.len() >= 1
    && (ck.enforced_degree_bounds is Some ==> sorted_usize(ck.enforced_degree_bounds->Some_0@))
    && (ck.shifted_powers_of_g is Some ==> (ck.enforced_degree_bounds is Some && ck.enforced_degree_bounds->Some_0@.len() > 0
        && ck.enforced_degree_bounds->Some_0@.last() < ck.shifted_powers_of_g->Some_0@.len()))
    && ((ck.enforced_degree_bounds is Some && ck.enforced_degree_bounds->Some_0@.len() > 0) ==> (ck.shifted_powers_of_g is Some && ck.shifted_powers_of_gamma_g is Some))
}
impl CommitterKey {
//@fn id=sonic_pc.CommitterKey.powers file=poly-commit/src/sonic_pc/data_structures.rs scope="impl<E: Pairing> CommitterKey<E>" name=powers props=C08,C09
    pub fn powers(&self) -> (r: kzg10::Powers)
    ensures
        r.powers_of_g@ == self.powers_of_g@,                  // name=sonic_pc.ck.powers.plain_powers props=C08,C09
        r.powers_of_gamma_g@ == self.powers_of_gamma_g@,      // name=sonic_pc.ck.powers.gamma_powers props=C08,C09
//@body
//@rw * /(self\.\w+)\.as_slice\(\)\.into\(\)/ => cow_from_slice(\1.as_slice())
//@end
//@fn id=sonic_pc.CommitterKey.shifted_powers file=poly-commit/src/sonic_pc/data_structures.rs scope="impl<E: Pairing> CommitterKey<E>" name=shifted_powers props=C04,C08,C09
    pub fn shifted_powers(&self, degree_bound: Option<usize>) -> (r: Option<kzg10::Powers>)
    requires
        sonic_ck_wf(self),
    ensures
        (r is Some) == (self.shifted_powers_of_g is Some && self.shifted_powers_of_gamma_g is Some),
        // the window for bound d starts at (largest enforced bound - d); the hiding powers are the ones trimmed for that bound
        (r is Some && degree_bound is Some) ==> (self.enforced_degree_bounds->Some_0@.contains(degree_bound->Some_0)
            && r->Some_0.powers_of_g@ == self.shifted_powers_of_g->Some_0@.subrange(self.enforced_degree_bounds->Some_0@.last() - degree_bound->Some_0, self.shifted_powers_of_g->Some_0@.len() as int)
            && r->Some_0.powers_of_gamma_g@ == self.shifted_powers_of_gamma_g->Some_0@[degree_bound->Some_0]@),   // name=sonic_pc.ck.shifted_powers.window_start_and_hiding_powers_of_that_bound props=C04,C08
        (r is Some && degree_bound is None) ==> r->Some_0.powers_of_g@ =~= self.shifted_powers_of_g->Some_0@
            && r->Some_0.powers_of_gamma_g@ == self.shifted_powers_of_gamma_g->Some_0@[self.enforced_degree_bounds->Some_0@.last()]@,   // name=sonic_pc.ck.shifted_powers.full_window props=C04
//@body
//@rw 1 /degree_bound\.into\(\)/ => degree_bound
//@rw 1 /(?s)assert!\(self\s*\.enforced_degree_bounds\s*\.as_ref\(\)\s*\.unwrap\(\)\s*\.contains\(&degree_bound\)\)/ => rassert!(contains_usize(self.enforced_degree_bounds.as_ref().unwrap().as_slice(), &degree_bound))
//@rw 1 /shifted_powers_of_g\[powers_range\.clone\(\)\]\.into\(\)/ => cow_from_slice(&shifted_powers_of_g[powers_range])
//@rw 1 /shifted_powers_of_gamma_g\[([^\]]+)\]\.clone\(\)\.into\(\)/ => btree_index_vec_g1(shifted_powers_of_gamma_g, \1)
//@end
//@fn id=sonic_pc.CommitterKey.supported_degree file=poly-commit/src/sonic_pc/data_structures.rs scope="impl<E: Pairing> PCCommitterKey for CommitterKey<E>" name=supported_degree props=C09
    pub fn supported_degree(&self) -> (r: usize)
    requires
        self.powers_of_g@.len() >= 1,
    ensures
        r == self.powers_of_g@.len() - 1,   // name=sonic_pc.ck.supported_degree.truthful props=C09
//@body
//@end
}
// Sonic commits a degree-bounded polynomial ONLY under the shifted window for its bound (no separate plain commitment)
pub open spec fn sonic_commit_one(ck: &CommitterKey, p: &LabeledPolynomial, c: &LabeledCommitment<kzg10::Commitment>, st: &kzg10::Randomness) -> bool {
    c.label == p.label && c.degree_bound == p.degree_bound
    && (p.degree_bound is None ==> c.commitment.0@ == f_add(msm(ck.powers_of_g@, p.polynomial.cv(), p.polynomial.len()),
            msm(ck.powers_of_gamma_g@, st.blinding_polynomial.cv(), min(ck.powers_of_gamma_g@.len(), st.blinding_polynomial.len()))))
    && (p.degree_bound is Some ==> {
            let w = ck.shifted_powers_of_g->Some_0@.subrange(ck.enforced_degree_bounds->Some_0@.last() - p.degree_bound->Some_0, ck.shifted_powers_of_g->Some_0@.len() as int);
            let gw = ck.shifted_powers_of_gamma_g->Some_0@[p.degree_bound->Some_0]@;
            c.commitment.0@ == f_add(msm(w, p.polynomial.cv(), p.polynomial.len()), msm(gw, st.blinding_polynomial.cv(), min(gw.len(), st.blinding_polynomial.len()))) })
    && (p.hiding_bound is None ==> st.blinding_polynomial.len() == 0)
    && (p.hiding_bound is Some ==> st.blinding_polynomial.len() == p.hiding_bound->Some_0 + 2)
}
pub open spec fn sonic_admissible(ck: &CommitterKey, p: &LabeledPolynomial) -> bool {
    p.degree_bound is Some ==> (ck.enforced_degree_bounds is Some && ck.enforced_degree_bounds->Some_0@.contains(p.degree_bound->Some_0)
            && p.polynomial.degree_spec() <= p.degree_bound->Some_0 && p.degree_bound->Some_0 <= ck.max_degree)
}
pub open spec fn sonic_in_domain(ck: &CommitterKey, p: &LabeledPolynomial, has_rng: bool) -> bool {
    p.polynomial.degree_spec() + 1 <= ck.powers_of_g@.len() && sonic_admissible(ck, p)
    && (p.hiding_bound is Some ==> (has_rng && match p.degree_bound {
            Some(d) => p.hiding_bound->Some_0 + 1 < ck.shifted_powers_of_gamma_g->Some_0@[d]@.len(),
            None => p.hiding_bound->Some_0 + 1 < ck.powers_of_gamma_g@.len() }))
}
impl SonicKZG10 {
//@fn id=sonic_pc.commit file=poly-commit/src/sonic_pc/mod.rs scope="impl<E, P> PolynomialCommitment<E::ScalarField, P> for SonicKZG10<E, P>" name=commit props=C08,C04,C07,C17,C01
    fn commit<'a>(ck: &CommitterKey, polynomials: Vec<&'a LabeledPolynomial>, rng: Option<&mut Rng>) -> (res: Result<(Vec<LabeledCommitment<kzg10::Commitment>>, Vec<kzg10::Randomness>), Error>)
    requires
        sonic_ck_wf(ck),
        forall|i: int| 0 <= i < polynomials@.len() ==> (#[trigger] polynomials@[i]).polynomial.wf() && polynomials@[i].polynomial.coeffs@.len() < usize::MAX
            && (polynomials@[i].hiding_bound is Some ==> polynomials@[i].hiding_bound->Some_0 < usize::MAX - 1),
    ensures
        res is Ok ==> (forall|i: int| 0 <= i < polynomials@.len() ==> sonic_admissible(ck, (#[trigger] polynomials@[i]))),   // name=sonic_pc.commit.bound_violations_are_refused props=C04,C17
        res is Ok ==> res->Ok_0.0@.len() == polynomials@.len() && res->Ok_0.1@.len() == polynomials@.len(),   // name=sonic_pc.commit.one_commitment_and_state_per_polynomial props=C01
        res is Ok ==> (forall|i: int| 0 <= i < polynomials@.len() ==> sonic_commit_one(ck, (#[trigger] polynomials@[i]), &res->Ok_0.0@[i], &res->Ok_0.1@[i])),   // name=sonic_pc.commit.commitments_are_the_key_defined_linear_maps props=C08,C04,C07,C01
        (res is Ok && rng is None) ==> (forall|i: int| 0 <= i < polynomials@.len() ==> (#[trigger] polynomials@[i]).hiding_bound is None),   // name=sonic_pc.commit.hiding_without_rng_never_succeeds props=C07,C17
        res is Err ==> (exists|i: int| 0 <= i < polynomials@.len() && !(sonic_in_domain(ck, #[trigger] polynomials@[i], rng is Some))),   // name=sonic_pc.commit.only_out_of_domain_requests_are_refused props=C17,C01
//@body
//@rw * /&mut crate::optional_rng::OptionalRng\(rng\)/ => &mut optional_rng_wrap(rng)
//@rw * /Some\(rng\)/ => Some(&mut *rng)
//@rw * /ck\.shifted_powers\(degree_bound\)\.unwrap\(\)/ => ck.shifted_powers(Some(degree_bound)).unwrap()
//@rw * /label\.to_string\(\)/ => string_to_string(label)
//@closure |bounds| => |bounds: &Vec<usize>| -> (sl: &[usize]) ensures sl@ == bounds@
//@after start
        let ghost rng_present = rng is Some;
//@loop 1 kw=for name=it
            invariant sonic_ck_wf(ck), it.index@ <= polynomials@.len(), labeled_comms@.len() == it.index@, randomness@.len() == it.index@,
                rng.present@ ==> rng_present,
                forall|i: int| 0 <= i < polynomials@.len() ==> (#[trigger] polynomials@[i]).polynomial.wf() && polynomials@[i].polynomial.coeffs@.len() < usize::MAX
                    && (polynomials@[i].hiding_bound is Some ==> polynomials@[i].hiding_bound->Some_0 < usize::MAX - 1),
                forall|i: int| 0 <= i < it.index@ ==> sonic_admissible(ck, (#[trigger] polynomials@[i])) && sonic_commit_one(ck, polynomials@[i], &labeled_comms@[i], &randomness@[i])
                    && (polynomials@[i].hiding_bound is Some ==> rng_present),
//@end
}
// challenge-weighted combination the prover opens: sum_j xi_j * p_j  (xi_0 squeezed before the loop, xi_{j+1} after polynomial j)
pub open spec fn sonic_comb_ev(ps: Seq<&LabeledPolynomial>, s: SS, k: nat, x: FS) -> FS decreases k {
    if k == 0 { f_zero() } else { f_add(sonic_comb_ev(ps, s, (k - 1) as nat, x), f_mul(sp_chal(s, (k - 1) as nat), ps[k - 1].polynomial.ev(x))) }
}
pub open spec fn sonic_comb_rand_ev(rs: Seq<&kzg10::Randomness>, s: SS, k: nat, x: FS) -> FS decreases k {
    if k == 0 { f_zero() } else { f_add(sonic_comb_rand_ev(rs, s, (k - 1) as nat, x), f_mul(sp_chal(s, (k - 1) as nat), rs[k - 1].blinding_polynomial.ev(x))) }
}
pub struct SonicKZG10;
impl SonicKZG10 {
//@fn id=sonic_pc.open file=poly-commit/src/sonic_pc/mod.rs scope="impl<E, P> PolynomialCommitment<E::ScalarField, P> for SonicKZG10<E, P>" name=open props=C11,C01,C04,C17
    fn open<'a>(ck: &CommitterKey, labeled_polynomials: Vec<&'a LabeledPolynomial>, _commitments: Vec<&'a LabeledCommitment<kzg10::Commitment>>, point: &'a Fr, sponge: &mut Sponge,
                states: Vec<&'a kzg10::Randomness>, _rng: Option<&mut Rng>) -> (res: Result<kzg10::Proof, Error>)
    requires
        ck.powers_of_g@.len() >= 1,
        ck.enforced_degree_bounds is Some ==> sorted_usize(ck.enforced_degree_bounds->Some_0@),
        forall|i: int| 0 <= i < labeled_polynomials@.len() ==> (#[trigger] labeled_polynomials@[i]).polynomial.coeffs@.len() < usize::MAX,
    ensures
        // exactly one challenge before the loop and one per polynomial - for EVERY polynomial, as the verifier does per commitment
        res is Ok ==> final(sponge).st@ == sp_iter(old(sponge).st@, 1 + min(labeled_polynomials@.len(), states@.len())),   // name=sonic_pc.open.squeeze_schedule_matches_verifier props=C11
        // the proof is the KZG10 opening of the challenge-weighted combination of ALL polynomials (and of their randomness)
        res is Ok ==> (exists|cp: Poly, cr: kzg10::Randomness| #![trigger kzg10::open_spec_seq(ck.powers_of_g@, ck.powers_of_gamma_g@, &cp, *point, &cr, res->Ok_0)]
            (forall|x: FS| #[trigger] cp.ev(x) == sonic_comb_ev(labeled_polynomials@, old(sponge).st@, min(labeled_polynomials@.len(), states@.len()), x))
            && (forall|x: FS| #[trigger] cr.blinding_polynomial.ev(x) == sonic_comb_rand_ev(states@, old(sponge).st@, min(labeled_polynomials@.len(), states@.len()), x))
            && kzg10::open_spec_seq(ck.powers_of_g@, ck.powers_of_gamma_g@, &cp, *point, &cr, res->Ok_0)),   // name=sonic_pc.open.opens_the_challenge_weighted_combination props=C01,C11
        res is Ok ==> (forall|i: int| 0 <= i < min(labeled_polynomials@.len(), states@.len()) ==> ((#[trigger] labeled_polynomials@[i]).degree_bound is Some ==>
            (ck.enforced_degree_bounds is Some && ck.enforced_degree_bounds->Some_0@.contains(labeled_polynomials@[i].degree_bound->Some_0)
             && labeled_polynomials@[i].polynomial.degree_spec() <= labeled_polynomials@[i].degree_bound->Some_0 && labeled_polynomials@[i].degree_bound->Some_0 <= ck.max_degree))),   // name=sonic_pc.open.bound_violations_are_refused props=C04,C17
//@body
//@rw * /\b(combined_polynomial|combined_rand) \+= \((curr_challenge), ([^;]*)\);/ => \1.add_assign_scaled((\2, \3));
//@closure |bounds| => |bounds: &Vec<usize>| -> (sl: &[usize]) ensures sl@ == bounds@
//@loop 1 kw=for name=it
            invariant it.index@ <= min(labeled_polynomials@.len(), states@.len()), ck.powers_of_g@.len() >= 1,
                ck.enforced_degree_bounds is Some ==> sorted_usize(ck.enforced_degree_bounds->Some_0@),
                forall|i: int| 0 <= i < labeled_polynomials@.len() ==> (#[trigger] labeled_polynomials@[i]).polynomial.coeffs@.len() < usize::MAX,
                sponge.st@ == sp_iter(old(sponge).st@, 1 + it.index@ as nat),
                curr_challenge@ == sp_chal(old(sponge).st@, it.index@ as nat),
                combined_polynomial.wf(), combined_polynomial.coeffs@.len() < usize::MAX,
                forall|x: FS| #[trigger] combined_polynomial.ev(x) == sonic_comb_ev(labeled_polynomials@, old(sponge).st@, it.index@ as nat, x),
                forall|x: FS| #[trigger] combined_rand.blinding_polynomial.ev(x) == sonic_comb_rand_ev(states@, old(sponge).st@, it.index@ as nat, x),
                forall|i: int| 0 <= i < it.index@ ==> ((#[trigger] labeled_polynomials@[i]).degree_bound is Some ==>
                    (ck.enforced_degree_bounds is Some && ck.enforced_degree_bounds->Some_0@.contains(labeled_polynomials@[i].degree_bound->Some_0)
                     && labeled_polynomials@[i].polynomial.degree_spec() <= labeled_polynomials@[i].degree_bound->Some_0 && labeled_polynomials@[i].degree_bound->Some_0 <= ck.max_degree)),
//@loopstart 1
            proof { reveal_with_fuel(sp_iter, 3); }
//@after /let mut curr_challenge =/
        proof { reveal_with_fuel(sp_iter, 3); broadcast use ax_mul_comm; }
//@end
}
