// streaming_kzg/data_structures.rs: FoldedPolynomialStreamIter, the stream of the last folding (C14); see units/streaming_fold.rs for the tree iterator
// Decided here, for EVERY coefficient stream, challenge list and call: the stack of pending partial folds tiles the consumed prefix of the
// (front-zero-padded) coefficient sequence, level by level, and every item handed out is the fold of the aligned window that ends at the
// current position.  NOT decided: that the space-efficient prover built on these streams returns the same proofs as the time-efficient one.
//@use core ops_gen std
//@spec ring
//@typemap /<'a, F, I>/ => <'a>
//@typemap /<F: Field>/ =>
//@typemap /&'a \[F\]/ => Vec<Fr>
//@typemap /iterator: I\b/ => iterator: CoeffIter
//@typemap /Vec<\(usize, F\)>/ => Vec<(usize, Fr)>
//@typemap /\bF::/ => Fr::
//@typemap /Option<<Self as Iterator>::Item>/ => Option<(usize, Fr)>
//@typemap /Option<Self::Item>/ => Option<Fr>
// ---- trusted environment: the inner coefficient iterator (any `Iterator` whose items borrow field elements): a sequence and a cursor ----
pub struct CoeffIter { pub v: Vec<Fr>, pub pos: usize }
impl CoeffIter {
    #[verifier::external_body] pub fn next(&mut self) -> (r: Option<Fr>)
        ensures final(self).v == old(self).v, old(self).pos < old(self).v@.len() ==> (r == Some(old(self).v@[old(self).pos as int]) && final(self).pos == old(self).pos + 1),
                old(self).pos >= old(self).v@.len() ==> (r is None && final(self).pos == old(self).pos) { unimplemented!() }
}
#[verifier::external_body] pub fn vec_truncate(v: &mut Vec<(usize, Fr)>, n: usize) requires n <= old(v)@.len() ensures final(v)@ == old(v)@.subrange(0, n as int) { unimplemented!() }   // Vec::truncate
//@struct file=poly-commit/src/streaming_kzg/data_structures.rs name=FoldedPolynomialStreamIter
//@spec fold_spec
// ---- the stream of the LAST folding only (FoldedPolynomialStreamIter): same stack discipline, plus alignment: the stack starts at a multiple of 2^depth ----
pub open spec fn stream_wf(it: &FoldedPolynomialStreamIter) -> bool {
    let d = it.challenges@.len(); let n = it_n(it.iterator.v@, it.iterator.pos as nat, d);
    d < 63 && it.iterator.pos <= it.iterator.v@.len() && it.iterator.v@.len() < 0x4000_0000_0000_0000
    && wfs(fviews(it.challenges@), padded(it.iterator.v@, d), d, it.stack@, n as int)
}
impl FoldedPolynomialStreamIter {
//@fn id=streaming.FoldedPolynomialStreamIter.next file=poly-commit/src/streaming_kzg/data_structures.rs scope="impl<'a, F, I> Iterator for FoldedPolynomialStreamIter<'a, F, I>" name=next props=C14,C17
    fn next(&mut self) -> (r: Option<Fr>)
    requires
        stream_wf(old(self)),
    ensures
        final(self).challenges@ == old(self).challenges@ && final(self).iterator.v == old(self).iterator.v,
        r is Some ==> stream_wf(final(self)),   // name=streaming.stream_iter.next.stack_keeps_tiling_the_consumed_prefix props=C14,C17
        // the element handed out is the complete fold (all challenges) of the block of 2^depth coefficients that ends at the current, block-aligned position
        r is Some ==> ({ let d = old(self).challenges@.len(); let n1 = it_n(final(self).iterator.v@, final(self).iterator.pos as nat, d);
            n1 >= pw(d) && n1 % pw(d) == 0 && final(self).stack@.len() == 0
            && r->Some_0@ == ffold(fviews(old(self).challenges@), d, padded(old(self).iterator.v@, d).subrange(n1 - pw(d), n1 as int)) }),   // name=streaming.stream_iter.next.element_is_the_full_fold_of_the_next_block props=C14
        r is None ==> final(self).iterator.pos == final(self).iterator.v@.len(),   // name=streaming.stream_iter.next.none_only_when_the_coefficients_are_exhausted props=C14
//@body
//@rw 1 /\*self\.iterator\.next\(\)\?\.borrow\(\)/ => self.iterator.next()?
//@rw 2 /\b(rhs|lhs)\.borrow\(\)/ => \1
//@rw 1 /self\.stack\.truncate\(len - 2\);/ => vec_truncate(&mut self.stack, len - 2);
//@rw 1 /self\.stack\.push\(\(level, element\)\)/ => self.stack.push((level, element));
//@after start
        let ghost ch = fviews(self.challenges@); let ghost d = self.challenges@.len() as nat; let ghost data = self.iterator.v@; let ghost pd = padded(data, d);
        proof { lemma_padded_len(data, d); }
//@loop 1 kw=loop
            invariant stream_wf(self), self.challenges@ == old(self).challenges@, self.iterator.v == old(self).iterator.v, target_level == d,
                ch == fviews(self.challenges@), d == self.challenges@.len(), data == self.iterator.v@, pd == padded(data, d), pd.len() == padlen(data.len(), d) + data.len(),
            decreases 2 * (self.iterator.v@.len() - self.iterator.pos) + self.stack@.len()
//@loopstart 1
            let ghost st0 = self.stack@; let ghost n0 = it_n(data, self.iterator.pos as nat, d) as int; let ghost pos0 = self.iterator.pos;
//@before /let \(_level, lhs\) = self\.stack\[len - 1\];/
                proof { lemma_step_fold(ch, pd, d, st0, n0); }
//@after /let folded_coefficient = self\.challenges\[0\] \*/
                proof { lemma_step_read2(ch, pd, d, st0, n0, rhs@, lhs@); }
//@before /if level != target_level \{/
            let ghost stm = self.stack@; let ghost n1 = it_n(data, self.iterator.pos as nat, d) as int;
            proof {
                if self.iterator.pos == pos0 + 1 { lemma_step_read1(ch, pd, d, st0, n0, element@); }
                if self.iterator.pos == pos0 { assert(stm =~= st0.subrange(0, st0.len() - 2)); }
                assert(step_ok(ch, pd, d, stm, n1, level as nat, element@));
                if level as nat == d { lemma_finish_return(ch, pd, d, stm, n1, element@); } else { lemma_finish_push(ch, pd, d, stm, n1, level, element); }
            }
//@end
}
