// HyraxPC::commit (hyrax/mod.rs), in both build configurations  (C07, C08, C19, C17)
//@use core ops_gen labeled_comm sponge std ser
//@spec ring vec_spec hyrax_spec hyrax_complete
//@typemap /<G>/ => 
//@typemap /Self::CommitterKey/ => HyraxUniversalParams
//@typemap /Self::Commitment\b/ => HyraxCommitment
//@typemap /Self::CommitmentState/ => HyraxCommitmentState
//@typemap /Self::Error/ => Error
//@typemap /G::ScalarField::/ => Fr::
//@typemap /Vec<G>/ => Vec<G1Affine>
//@typemap /: G,/ => : G1Affine,
//@typemap /Matrix<F>/ => Matrix
//@typemap /Vec<Vec<F>>/ => Vec<Vec<Fr>>
//@typemap /Vec<F>/ => Vec<Fr>
//@typemap /HyraxRandomness<F>/ => Vec<Fr>
//@typemap /\|_\|/ => |_e|
//@enum file=poly-commit/src/error.rs name=Error
//@struct file=poly-commit/src/utils.rs name=Matrix
//@struct file=poly-commit/src/hyrax/data_structures.rs name=HyraxUniversalParams
//@struct file=poly-commit/src/hyrax/data_structures.rs name=HyraxCommitment
//@struct file=poly-commit/src/hyrax/data_structures.rs name=HyraxCommitmentState
//@struct file=poly-commit/src/hyrax/data_structures.rs name=HyraxProof
impl SerBytes for HyraxUniversalParams { uninterp spec fn ser_bytes(&self) -> Seq<u8>; }
pub open spec fn mat_wf(m: &Matrix) -> bool { m.entries@.len() == m.n && forall|r: int| 0 <= r < m.n ==> (#[trigger] m.entries@[r])@.len() == m.m }
impl Matrix {
//@stub from=matrix.rs id=utils.Matrix.new_from_rows
}
//@stub from=matrix.rs id=hyrax.flat_to_matrix_column_major
// ---- trusted environment: the multilinear polynomial (ark-poly DenseMultilinearExtension) and the thread-local RNG ----
pub struct MLPoly { pub num_vars: usize, pub evals: Vec<Fr> }
impl MLPoly {
    #[verifier::external_body] pub fn num_vars(&self) -> (r: usize) ensures r == self.num_vars { unimplemented!() }
    #[verifier::external_body] pub fn to_evaluations(&self) -> (r: Vec<Fr>) ensures r@ == self.evals@, r@.len() == vstd::arithmetic::power2::pow2(self.num_vars as nat) { unimplemented!() }
}
pub struct LabeledML { pub label: String, pub polynomial: MLPoly }
impl LabeledML {
    pub fn label(&self) -> (r: &String) ensures *r == self.label { &self.label }
    pub fn polynomial(&self) -> (r: &MLPoly) ensures *r == self.polynomial { &self.polynomial }
}
// rand::thread_rng(): a generator that is NOT the caller's (its identity is a fixed unknown, distinct stream)
pub uninterp spec fn thread_rng_id() -> int;
#[verifier::external_body] pub fn thread_rng() -> (r: Rng) ensures r.present@, r.id@ == thread_rng_id() { unimplemented!() }

// ======================= specification =======================
// commitment i: one Pedersen commitment per row of the 2^(n/2) x 2^(n/2) evaluation matrix (column-major), row j blinded with
// h * r_j where r_j is the j-th draw (from position pos) of the generator `id`
#[verifier::opaque]
pub open spec fn hyrax_commit_shape(ck: &HyraxUniversalParams, p: &LabeledML, c: &LabeledCommitment<HyraxCommitment>, st: &HyraxCommitmentState) -> bool {
    let n = p.polynomial.num_vars as nat; let dim = vstd::arithmetic::power2::pow2(n / 2);
    c.label == p.label && c.degree_bound == Some(1usize)
    && c.commitment.row_coms@.len() == dim && st.randomness@.len() == dim        // square-root size
    && st.mat.n == dim && st.mat.m == dim && mat_wf(&st.mat)
    && (forall|row: int, col: int| 0 <= row < dim && 0 <= col < dim ==> #[trigger] st.mat.entries@[row]@[col] == p.polynomial.evals@[col * dim + row])
    && (forall|j: int| 0 <= j < dim ==> (#[trigger] c.commitment.row_coms@[j])@ == f_add(pedersen(ck.com_key@, fviews(st.mat.entries@[j]@)), f_mul(ck.h@, st.randomness@[j]@)))
}
// the blinding scalars are consecutive fresh draws of the generator `id`, starting at position pos
pub open spec fn hyrax_draws_from(st: &HyraxCommitmentState, id: int, pos: nat) -> bool {
    forall|j: int| 0 <= j < st.randomness@.len() ==> (#[trigger] st.randomness@[j])@ == draw(id, pos + j as nat)
}
pub open spec fn hyrax_commit_one(ck: &HyraxUniversalParams, p: &LabeledML, c: &LabeledCommitment<HyraxCommitment>, st: &HyraxCommitmentState, id: int, pos: nat) -> bool {
    hyrax_commit_shape(ck, p, c, st) && hyrax_draws_from(st, id, pos)
}
pub open spec fn hyrax_draws(ps: Seq<&LabeledML>, k: nat) -> nat decreases k { if k == 0 { 0 } else { hyrax_draws(ps, (k - 1) as nat) + vstd::arithmetic::power2::pow2((ps[k - 1].polynomial.num_vars / 2) as nat) } }
pub open spec fn hyrax_admissible(ck: &HyraxUniversalParams, p: &LabeledML) -> bool { p.polynomial.num_vars % 2 == 0 && p.polynomial.num_vars <= ck.com_key@.len() }

//@stub from=hyrax.rs id=hyrax.tensor_prime vis=pub
#[verifier::external_body] pub fn vec_one1() -> (r: Vec<Fr>) ensures r@.len() == 1, r@[0]@ == f_one() { unimplemented!() }
#[verifier::external_body] pub fn slice_from1(v: &[Fr]) -> (r: &[Fr]) requires v@.len() >= 1 ensures r@ == v@.subrange(1, v@.len() as int) { unimplemented!() }
#[verifier::external_body] pub fn string_ne(a: &String, b: &String) -> (r: bool) ensures r == (*a != *b) { unimplemented!() }     // `a != b` on &String
//@stub from=hyrax.rs id=utils.inner_product
//@stub from=matrix.rs id=utils.vector_sum
//@stub from=matrix.rs id=utils.scalar_by_vector
impl Matrix {
//@stub from=matrix.rs id=utils.Matrix.row_mul
}
// what the honest prover puts into the proof for (state st) at the point with tensors l, r, under the verifier challenge c,
// with its blinding taken from positions pos.. of the generator id:  r_eval, d_0..d_{dim-1}, r_d, r_b
#[verifier::opaque]
pub open spec fn hyrax_honest(ck: &HyraxUniversalParams, st: &HyraxCommitmentState, l: Seq<FS>, r: Seq<FS>, pr: &HyraxProof, c: FS, id: int, pos: nat, nd: nat) -> bool {
    let dim = st.mat.m as nat;
    let lt = Seq::new(dim, |col: int| ip(l, Seq::new(st.mat.n as nat, |rw: int| st.mat.entries@[rw]@[col]@)));      // l * T
    let r_lt = ip(l, fviews(st.randomness@));
    let eval = ip(lt, r);
    let d = Seq::new(nd, |j: int| draw(id, pos + 1 + j as nat));
    let r_eval = draw(id, pos); let r_d = draw(id, pos + 1 + nd); let r_b = draw(id, pos + 2 + nd);
    pr.com_eval@ == f_add(f_mul(ck.com_key@[0]@, eval), f_mul(ck.h@, r_eval))
    && pr.com_d@ == f_add(pedersen(ck.com_key@, d), f_mul(ck.h@, r_d))
    && pr.com_b@ == f_add(f_mul(ck.com_key@[0]@, ip(r, d)), f_mul(ck.h@, r_b))
    && pr.z@.len() == min(d.len(), lt.len()) && (forall|j: int| 0 <= j < pr.z@.len() ==> (#[trigger] pr.z@[j])@ == f_add(d[j], f_mul(lt[j], c)))
    && pr.z_d@ == f_add(f_mul(c, r_lt), r_d)
    && pr.z_b@ == f_add(f_mul(c, r_eval), r_b)
}
// ======================= C01 for Hyrax: an honest opening of an honest commitment satisfies both verifier equations =======================
pub open spec fn mrows(st: &HyraxCommitmentState) -> Seq<Seq<FS>> { Seq::new(st.mat.entries@.len(), |i: int| fviews(st.mat.entries@[i]@)) }
//@lemma props=C01
pub proof fn lemma_hyrax_complete(ck: &HyraxUniversalParams, p: &LabeledML, c: &LabeledCommitment<HyraxCommitment>, st: &HyraxCommitmentState, l: Seq<FS>, r: Seq<FS>, pr: &HyraxProof, ch: FS, id: int, pos: nat, dim: nat)
    requires
        hyrax_commit_shape(ck, p, c, st),               // what HyraxPC::commit returns (unit hyrax.commit)
        hyrax_honest(ck, st, l, r, pr, ch, id, pos, dim),  // what HyraxPC::open puts into the proof (unit hyrax.open)
        dim == vstd::arithmetic::power2::pow2((p.polynomial.num_vars / 2) as nat), dim >= 1,
        ck.com_key@.len() == dim,                        // (commit aborts otherwise: pedersen_commit asserts equal lengths)
        l.len() == dim, r.len() == dim,                  // tensors of a point with num_vars coordinates
    ensures
        hyrax_eq13(ck, c.commitment.row_coms@, l, pr, ch),
        hyrax_eq14(ck, r, pr, ch),
{
    reveal(hyrax_commit_shape); reveal(hyrax_honest);
    let key = g1views(ck.com_key@); let h = ck.h@; let g0 = ck.com_key@[0]@;
    let t = mrows(st);
    let rnd = fviews(st.randomness@);
    let d = Seq::new(dim, |j: int| draw(id, pos + 1 + j as nat));
    let r_eval = draw(id, pos); let r_d = draw(id, pos + 1 + dim); let r_b = draw(id, pos + 2 + dim);
    let lt = Seq::new(dim, |col: int| ip(l, Seq::new(st.mat.n as nat, |rw: int| st.mat.entries@[rw]@[col]@)));
    let z = fviews(pr.z@);
    // lt as a column-wise dot product
    assert forall|j: int| 0 <= j < dim implies lt[j] == ltn(l, t, dim, dim)[j] by {
        let colj = Seq::new(st.mat.n as nat, |rw: int| st.mat.entries@[rw]@[j]@);
        lemma_ip_is_dot(l, colj);
        assert(colj =~= mcol(t, j));
    }
    assert(lt =~= ltn(l, t, dim, dim));
    let cl = Seq::new(dim, |j: int| f_mul(ch, lt[j]));
    assert forall|j: int| 0 <= j < dim implies z[j] == f_add(d[j], cl[j]) by { ax_mul_comm(lt[j], ch); }
    // ---- eq (14): g0 * <r, z> + h * z_b == com_eval * c + com_b
    lemma_ip_is_dot(r, z); lemma_ip_is_dot(r, d); lemma_ip_is_dot(lt, r);
    lemma_dot_add(r, d, cl, z, dim);
    lemma_dot_scale(r, lt, ch, cl, dim);
    lemma_dot_comm(r, lt, dim);
    let eval = ip(lt, r);
    assert(dot(r, z, dim) == f_add(ip(r, d), f_mul(ch, eval)));
    ax_mul_comm(ch, eval);
    assert(fsum(pointwise_mul(r, z), min(r.len(), z.len())) == dot(r, z, dim));
    lemma_eq14_alg(g0, h, ip(r, d), ch, eval, r_eval, r_b);
    ax_mul_comm(pr.com_eval@, ch);
    // ---- eq (13): <key, z> + h * z_d == (sum_i l_i * row_com_i) * c + com_d
    lemma_dot_add(key, d, cl, z, dim);
    lemma_dot_scale(key, lt, ch, cl, dim);
    // row commitments: rc_i = <key, T_i> + h * rnd_i
    let rc = g1views(c.commitment.row_coms@);
    let rd_ = rowdots(key, t, dim);
    let hr = Seq::new(dim, |i: int| f_mul(h, rnd[i]));
    assert forall|i: int| 0 <= i < dim implies rc[i] == f_add(rd_[i], hr[i]) by {
        assert(fviews(st.mat.entries@[i]@) == t[i]);
        assert(min(key.len(), t[i].len()) == dim);
    }
    lemma_dot_comm(rc, l, dim);
    lemma_dot_add(l, rd_, hr, rc, dim);
    lemma_dot_comm(l, rd_, dim);
    lemma_dot_scale(l, rnd, h, hr, dim);
    lemma_rows_exchange(key, t, l, dim, dim);
    let r_lt = ip(l, rnd);
    lemma_ip_is_dot(l, rnd);
    assert(dot(rc, l, dim) == f_add(dot(key, lt, dim), f_mul(h, r_lt)));
    assert(msm(c.commitment.row_coms@, l, min(c.commitment.row_coms@.len(), l.len())) == dot(rc, l, dim));
    assert(pedersen(ck.com_key@, z) == dot(key, z, dim));
    assert(pedersen(ck.com_key@, d) == dot(key, d, dim));
    lemma_eq13_alg(dot(key, d, dim), dot(key, lt, dim), h, ch, r_lt, r_d);
}
pub proof fn lemma_hyrax_state_prefix(s: SS, vk: &HyraxUniversalParams, coms: Seq<&LabeledCommitment<HyraxCommitment>>, pt: Seq<FS>, p1: Seq<HyraxProof>, p2: Seq<HyraxProof>, k: nat)
    requires k <= p1.len(), k <= p2.len(), forall|i: int| 0 <= i < k ==> p1[i] == p2[i]
    ensures hyrax_state(s, vk, coms, pt, p1, k) == hyrax_state(s, vk, coms, pt, p2, k)
    decreases k
{ if k > 0 { lemma_hyrax_state_prefix(s, vk, coms, pt, p1, p2, (k - 1) as nat); } }
// the i-th generator: hash-to-curve of (PROTOCOL_NAME, i[, j]), cofactor cleared - a deterministic function of i  [the sampling closure is outside the verified text]
//@use h2c
//@spec h2c_spec
pub open spec fn hyrax_gen(i: nat) -> AS { h2c_gen(i) }
pub struct HyraxPC;
impl HyraxPC {
//@stub from=hyrax.rs id=hyrax.pedersen_commit

//@fn id=hyrax.commit file=poly-commit/src/hyrax/mod.rs scope="impl<G, P> PolynomialCommitment<G::ScalarField, P> for HyraxPC<G, P>" name=commit props=C07,C08,C19,C17
    fn commit<'a>(ck: &HyraxUniversalParams, polynomials: Vec<&'a LabeledML>, rng: Option<&mut Rng>) -> (res: Result<(Vec<LabeledCommitment<HyraxCommitment>>, Vec<HyraxCommitmentState>), Error>)
    requires
        forall|i: int| 0 <= i < polynomials@.len() ==> (#[trigger] polynomials@[i]).polynomial.num_vars < 64,     // (2^num_vars evaluations are held in memory)
        rng is Some ==> rng->Some_0.present@,
    ensures
        res is Ok ==> (forall|i: int| 0 <= i < polynomials@.len() ==> hyrax_admissible(ck, (#[trigger] polynomials@[i]))),   // name=hyrax.commit.odd_or_too_many_variables_refused props=C17
        // ... and nothing else is: in-domain requests are answered
        res is Err ==> (exists|i: int| 0 <= i < polynomials@.len() && !hyrax_admissible(ck, #[trigger] polynomials@[i])),   // name=hyrax.commit.only_inadmissible_requests_are_refused props=C17
        res is Ok ==> res->Ok_0.0@.len() == polynomials@.len() && res->Ok_0.1@.len() == polynomials@.len(),   // name=hyrax.commit.one_commitment_and_state_per_polynomial props=C19
        // every row commitment = Pedersen commitment to the row + h * (a fresh draw from the CALLER's generator)
        res is Ok ==> (forall|i: int| 0 <= i < polynomials@.len() ==> hyrax_commit_one(ck, (#[trigger] polynomials@[i]), &res->Ok_0.0@[i], &res->Ok_0.1@[i],
            old(rng->Some_0).id@, old(rng->Some_0).pos@ + hyrax_draws(polynomials@, i as nat))),   // name=hyrax.commit.rows_blinded_with_fresh_draws_of_the_callers_rng props=C07,C08,C19
        (res is Ok && polynomials@.len() > 0) ==> rng is Some,   // name=hyrax.commit.no_rng_no_commitment props=C07,C17
//@body
//@rw * /rng\.expect\("[^"]*"\)/ => &mut expect_rng(rng)
//@rw * /rand::thread_rng\(\)/ => thread_rng()
//@rw * /label\.to_string\(\)/ => string_to_string(label)
//@rw 1 /let mut coms = Vec::new\(\);/ => let mut coms: Vec<LabeledCommitment<HyraxCommitment>> = Vec::new();
//@rw 1 /let mut states = Vec::new\(\);/ => let mut states: Vec<HyraxCommitmentState> = Vec::new();
//@rw 1 /let dim = 1 << n \/ 2;/ => proof { vstd::arithmetic::power2::lemma_pow2_strictly_increases((n / 2) as nat, 64); vstd::arithmetic::power2::lemma2_to64(); vstd::arithmetic::power2::lemma_pow2_pos((n / 2) as nat); vstd::bits::lemma_usize_shl_is_mul(1usize, (n / 2) as usize); }
            let dim: usize = 1 << n / 2;
//@before /let com_rands: Vec<G::ScalarField> =/ #1
            let ghost posk = rng_inner.pos@;
//@rw 1 /(?s)let com_rands: Vec<G::ScalarField> = \(0\.\.m\.len\(\)\)\s*\.map\(\|_\| (.*?)\)\s*\.collect\(\);/ => let mut com_rands: Vec<Fr> = Vec::new();
            let mut ri__: usize = 0;
            while ri__ < m.len()
                invariant ri__ <= m@.len(), com_rands@.len() == ri__, rng_inner.id@ == id0 && rng_inner.present@ && rng_inner.pos@ == posk + ri__,
                    forall|j: int| 0 <= j < ri__ ==> (#[trigger] com_rands@[j])@ == draw(id0, posk + j as nat),
                decreases m@.len() - ri__,
            {
                let r__ = \1;
                com_rands.push(r__);
                ctr_inc(&mut ri__);
            }
//@rw 1 /(?s)let row_coms: Vec<_> = cfg_iter!\(m\)\s*\.zip\(cfg_iter!\(com_rands\)\)\s*\.map\(\|\(row, r\)\| (.*?)\)\s*\.collect\(\);/ => let row_coms: Vec<G1Affine> = m.iter().zip(com_rands.iter()).map(|q__: (&Vec<Fr>, &Fr)| -> (c: G1Affine) ensures c@ == f_add(pedersen(ck.com_key@, fviews(q__.0@)), f_mul(ck.h@, q__.1@)) { let (row, r) = q__; \1 }).collect();
            proof { assert forall|j: int| 0 <= j < m@.len() implies (#[trigger] row_coms@[j])@ == f_add(pedersen(ck.com_key@, fviews(m@[j]@)), f_mul(ck.h@, com_rands@[j]@)) by { } }
//@after start
        let ghost id0 = if rng is Some { rng->Some_0.id@ } else { 0 };
        let ghost pos0 = if rng is Some { rng->Some_0.pos@ } else { 0 };
//@loop 1 kw=for name=it
            invariant it.index@ <= polynomials@.len(), coms@.len() == it.index@, states@.len() == it.index@,
                forall|i: int| 0 <= i < polynomials@.len() ==> (#[trigger] polynomials@[i]).polynomial.num_vars < 64,
                rng_inner.id@ == id0 && rng_inner.present@ && rng_inner.pos@ == pos0 + hyrax_draws(polynomials@, it.index@ as nat),
                forall|i: int| 0 <= i < it.index@ ==> hyrax_admissible(ck, (#[trigger] polynomials@[i])) && hyrax_commit_one(ck, polynomials@[i], &coms@[i], &states@[i], id0, pos0 + hyrax_draws(polynomials@, i as nat)),
//@loopstart 1
            let ghost k = it.index@;
//@loopend 1
            proof {
                assert(hyrax_commit_one(ck, polynomials@[k], &coms@[k], &states@[k], id0, pos0 + hyrax_draws(polynomials@, k as nat))) by {
                    reveal(hyrax_commit_shape);
                    let st = &states@[k]; let c = &coms@[k];
                    assert(st.mat.entries@ == m0);
                    assert(posk == pos0 + hyrax_draws(polynomials@, k as nat));
                }
            }
//@before /let com = HyraxCommitment \{ row_coms \};/
            let ghost m0 = m@;
//@before /let m = flat_to_matrix_column_major/
            proof {
                assert(l_poly == polynomials@[k]);
                vstd::arithmetic::power2::lemma_pow2_adds((n / 2) as nat, (n / 2) as nat);
                vstd::arithmetic::power2::lemma_pow2_strictly_increases(n as nat, 64); vstd::arithmetic::power2::lemma2_to64();
                assert(dim * dim == vstd::arithmetic::power2::pow2(n as nat));
            }
//@end

//@fn id=hyrax.setup file=poly-commit/src/hyrax/mod.rs scope="impl<G, P> PolynomialCommitment<G::ScalarField, P> for HyraxPC<G, P>" name=setup props=C09,C19,C17
    #[verifier::exec_allows_no_decreases_clause]
    fn setup(_max_degree: usize, num_vars: Option<usize>, _rng: &mut Rng) -> (res: Result<HyraxUniversalParams, Error>)
    requires
        num_vars is Some ==> num_vars->Some_0 < 126,
    ensures
        (res is Err) == (num_vars is None || num_vars->Some_0 % 2 == 1),   // name=hyrax.setup.odd_or_missing_number_of_variables_refused props=C17
        // one generator per column of the 2^(n/2) x 2^(n/2) matrix, plus h: each derived from its index
        res is Ok ==> res->Ok_0.com_key@.len() == vstd::arithmetic::power2::pow2((num_vars->Some_0 / 2) as nat),   // name=hyrax.setup.square_root_many_generators props=C09,C19
        res is Ok ==> (forall|i: int| 0 <= i < res->Ok_0.com_key@.len() ==> (#[trigger] res->Ok_0.com_key@[i])@ == hyrax_gen(i as nat))
            && res->Ok_0.h@ == hyrax_gen(res->Ok_0.com_key@.len()),   // name=hyrax.setup.generators_derived_from_index props=C09
//@body
//@rw 1 /(?s)let points: Vec<_> = ark_std::cfg_into_iter!\(0u64\.\.dim \+ 1\)\s*\.map\(\|i\| \{(.*?)\n            \}\)\s*\.collect\(\);/ => let mut points: Vec<G1> = Vec::new();
        let mut i__o: u64 = 0;
        while i__o < dim + 1
            invariant i__o <= dim + 1, dim < 0x8000_0000_0000_0000, points@.len() == i__o, forall|q: int| 0 <= q < points@.len() ==> (#[trigger] points@[q])@ == hyrax_gen(q as nat),
        {
            let ghost pts0 = points@;
            let i = i__o;
            let gp__: G1 = {\1
            };
            points.push(gp__);
            proof { assert forall|q: int| 0 <= q < points@.len() implies (#[trigger] points@[q])@ == hyrax_gen(q as nat) by { if q < i__o { assert(points@[q] == pts0[q]); } } }
            ctr_inc_u64(&mut i__o);
        }
//@rw * /\[PROTOCOL_NAME, &(\w+)\.to_le_bytes\(\)\]\.concat\(\)\.as_slice\(\)/ => bytes_concat2(protocol_name(), &u64_to_le_bytes(\1)).as_slice()
//@rw * /PROTOCOL_NAME\.to_vec\(\)/ => protocol_name()
//@rw * /bytes\.extend\((\w+)\.to_le_bytes\(\)\);/ => bytes_extend(&mut bytes, &u64_to_le_bytes(\1));
//@rw * /Blake2s256::digest\(/ => digest(
//@rw * /G::from_random_bytes\(/ => from_random_bytes(
//@rw 1 /j \+= 1;/ => ctr_inc_u64(&mut j);
//@rw 1 /point\.mul_by_cofactor_to_group\(\)/ => mul_by_cofactor_to_group(point)
//@loop 1 kw=while
                    invariant j as nat == tt, p == attempt(i, tt), forall|t2: nat| t2 < tt ==> attempt(i, t2) is None,
//@beforeloop 1
                let ghost mut tt: nat = 0;
//@loopend 1
                    proof { tt = tt + 1; }
//@before /let point = p\.unwrap\(\);/
                proof { assert(first_hit(i, tt)); lemma_first_hit_unique(i, tt); }
//@rw 1 /let dim = 1 << n \/ 2;/ => proof { vstd::arithmetic::power2::lemma_pow2_strictly_increases((n / 2) as nat, 63); vstd::arithmetic::power2::lemma_pow2_strictly_increases(63, 64); vstd::arithmetic::power2::lemma2_to64(); vstd::arithmetic::power2::lemma_pow2_pos((n / 2) as nat); vstd::bits::lemma_u64_shl_is_mul(1u64, (n / 2) as u64); }
        let dim: u64 = 1 << n / 2;
        proof { vstd::arithmetic::power2::lemma2_to64_rest(); vstd::arithmetic::power2::lemma_pow2_strictly_increases((n / 2) as nat, 63); assert(dim as nat == vstd::arithmetic::power2::pow2((n / 2) as nat)); assert(dim < 0x8000_0000_0000_0000); }
//@rw 1 /G::Group::normalize_batch/ => G1::normalize_batch
//@rw * /let h: G =/ => let h: G1Affine =
//@rw * /points\.pop\(\)\.unwrap\(\)/ => points.pop().unwrap_abort()
//@end

//@fn id=hyrax.open file=poly-commit/src/hyrax/mod.rs scope="impl<G, P> PolynomialCommitment<G::ScalarField, P> for HyraxPC<G, P>" name=open props=C11,C01,C07,C19,C17
    fn open<'a>(ck: &HyraxUniversalParams, labeled_polynomials: Vec<&'a LabeledML>, commitments: Vec<&'a LabeledCommitment<HyraxCommitment>>, point: &'a Vec<Fr>, sponge: &mut Sponge, states: Vec<&'a HyraxCommitmentState>, rng: Option<&mut Rng>) -> (res: Result<Vec<HyraxProof>, Error>)
    requires
        point@.len() < 64, ck.com_key@.len() >= 1,
        rng is Some ==> rng->Some_0.present@,
        forall|i: int| 0 <= i < states@.len() ==> mat_wf(&(#[trigger] states@[i]).mat),
    ensures
        point@.len() % 2 == 1 ==> res is Err,   // name=hyrax.open.odd_number_of_variables_is_err props=C17
        res is Ok ==> res->Ok_0@.len() == min(labeled_polynomials@.len(), min(commitments@.len(), states@.len())),   // name=hyrax.open.one_proof_per_polynomial props=C19,C01
        // the prover absorbs and squeezes exactly like the verifier
        res is Ok ==> final(sponge).st@ == hyrax_state(old(sponge).st@, ck, commitments@, fviews(point@), res->Ok_0@, res->Ok_0@.len()),   // name=hyrax.open.transcript_schedule_is_the_verifiers props=C11
        res is Ok ==> rng is Some,   // name=hyrax.open.no_rng_no_proof props=C07,C17
        res is Ok ==> (forall|i: int| 0 <= i < res->Ok_0@.len() ==> (#[trigger] labeled_polynomials@[i]).label == commitments@[i].label && labeled_polynomials@[i].polynomial.num_vars == point@.len()),   // name=hyrax.open.mismatched_labels_or_arity_are_errors props=C17
        res is Ok ==> (forall|i: int| 0 <= i < res->Ok_0@.len() ==> hyrax_honest(ck, (#[trigger] states@[i]), hyrax_l(fviews(point@)), hyrax_r(fviews(point@)), &res->Ok_0@[i],
            hyrax_chal(old(sponge).st@, ck, commitments@, fviews(point@), res->Ok_0@, i as nat), old(rng->Some_0).id@,
            old(rng->Some_0).pos@ + i as nat * (vstd::arithmetic::power2::pow2((point@.len() / 2) as nat) + 3), vstd::arithmetic::power2::pow2((point@.len() / 2) as nat))),   // name=hyrax.open.proof_contents_and_fresh_blinding props=C01,C07
//@body
//@rw 1 /point\.iter\(\)\.rev\(\)\.cloned\(\)\.collect\(\)/ => point.iter().rev().map(|x: &Fr| -> (y: Fr) ensures y == *x { *x }).collect()
//@rw 1 /rng\.expect\("[^"]*"\)/ => &mut expect_rng(rng)
//@rw 1 /label != l_com\.label\(\)/ => string_ne(label, l_com.label())
//@rw * /l_com\.label\(\)\.to_string\(\)/ => string_to_string(l_com.label())
//@rw * /label\.to_string\(\)/ => string_to_string(label)
//@rw 1 /let dim = 1 << n \/ 2;/ => proof { vstd::arithmetic::power2::lemma_pow2_strictly_increases((n / 2) as nat, 64); vstd::arithmetic::power2::lemma2_to64(); vstd::arithmetic::power2::lemma_pow2_pos((n / 2) as nat); vstd::bits::lemma_usize_shl_is_mul(1usize, (n / 2) as usize); }
        let dim: usize = 1 << n / 2;
//@rw 1 /let mut proofs = Vec::new\(\);/ => let mut proofs: Vec<HyraxProof> = Vec::new();
//@rw 1 /(?s)let r_lt = (cfg_iter!\(l\)\s*\.zip\(&state\.randomness\)\s*\.map\(.*?\))\s*\.sum::<G::ScalarField>\(\);/ => let rl__: Vec<Fr> = \1.collect();
            proof { assert(fviews(rl__@) =~= pointwise_mul(fviews(l@), fviews(state.randomness@))); }
            let r_lt = sum_vec(&rl__);
//@rw 1 /\.zip\(&state\.randomness\)/ => .zip(state.randomness.iter())
//@closure |(l, r)| => |q: (&Fr, &Fr)| -> (y: Fr) ensures y@ == f_mul(q.0@, q.1@) ;; let (l, r) = q;
//@rw 1 /(?s)let d: Vec<G::ScalarField> =\s*\(0\.\.dim\)\.map\(\|_\| G::ScalarField::rand\(rng_inner\)\)\.collect\(\);/ => let mut d: Vec<Fr> = Vec::new();
            let ghost pos_d = rng_inner.pos@;
            for _j in itd: 0..dim
                invariant itd.index@ <= dim, d@.len() == itd.index@, rng_inner.id@ == id0, rng_inner.present@, rng_inner.pos@ == pos_d + itd.index@,
                    forall|j: int| 0 <= j < itd.index@ ==> (#[trigger] d@[j])@ == draw(id0, pos_d + j as nat),
            { d.push(Fr::rand(rng_inner)); }
//@rw 1 /sponge\.squeeze_field_elements\(1\)\[0\]/ => { let sq__ = sponge.squeeze_field_elements(1); sq__[0] }
//@after start
        let ghost id0 = if rng is Some { rng->Some_0.id@ } else { 0 };
        let ghost pos0 = if rng is Some { rng->Some_0.pos@ } else { 0 };
        let ghost s0 = sponge.st@;
        let ghost pt = fviews(point@);
//@before /let l = tensor_prime\(point_lower\);/
        proof {
            assert(fviews(point_rev@) =~= rev_seq(fviews(point@)));
            assert(fviews(point_lower@) =~= rev_seq(fviews(point@)).subrange((point@.len() / 2) as int, point@.len() as int));
            assert(fviews(point_upper@) =~= rev_seq(fviews(point@)).subrange(0, (point@.len() / 2) as int));
        }
//@loop 1 kw=for name=it
            invariant it.index@ <= min(labeled_polynomials@.len(), min(commitments@.len(), states@.len())), proofs@.len() == it.index@,
                n == point@.len(), n % 2 == 0, n < 64, ck.com_key@.len() >= 1, pt == fviews(point@),
                fviews(l@) == hyrax_l(pt), fviews(r@) == hyrax_r(pt),
                forall|i: int| 0 <= i < states@.len() ==> mat_wf(&(#[trigger] states@[i]).mat),
                rng_inner.id@ == id0 && rng_inner.present@ && rng_inner.pos@ == pos0 + it.index@ * (dim + 3), dim == vstd::arithmetic::power2::pow2((n / 2) as nat),
                sponge.st@ == hyrax_state(s0, ck, commitments@, pt, proofs@, it.index@ as nat),
                forall|i: int| 0 <= i < it.index@ ==> (#[trigger] labeled_polynomials@[i]).label == commitments@[i].label && labeled_polynomials@[i].polynomial.num_vars == point@.len(),
                forall|i: int| 0 <= i < it.index@ ==> hyrax_honest(ck, (#[trigger] states@[i]), hyrax_l(pt), hyrax_r(pt), &proofs@[i], hyrax_chal(s0, ck, commitments@, pt, proofs@, i as nat), id0, pos0 + i as nat * (dim as nat + 3), dim as nat),
//@loopstart 1
            let ghost k = it.index@;
            let ghost pr0 = proofs@;
            let ghost s_k = sponge.st@;
            let ghost posk = rng_inner.pos@;
            proof { assert(k * (dim + 3) + (dim + 3) == (k + 1) * (dim + 3)) by (nonlinear_arith); }
//@before /let c = sponge\.squeeze_field_elements\(1\)\[0\];/
            let ghost s_abs = sponge.st@;
//@loopend 1
            proof {
                let pr = proofs@[k];
                assert(proofs@ =~= pr0.push(pr));
                assert(s_abs == hyrax_absorbed(s_k, ck, &l_com.commitment, pt, &pr));
                assert(sponge.st@ == sp_sqn_next(s_abs, 1));
                assert forall|j: nat| j <= k implies #[trigger] hyrax_state(s0, ck, commitments@, pt, proofs@, j) == hyrax_state(s0, ck, commitments@, pt, pr0, j) by {
                    lemma_hyrax_state_prefix(s0, ck, commitments@, pt, proofs@, pr0, j);
                }
                assert(l_com == commitments@[k] && state == states@[k] && l_poly == labeled_polynomials@[k]);
                lemma_hyrax_state_prefix(s0, ck, commitments@, pt, proofs@, pr0, k as nat);
                assert(hyrax_state(s0, ck, commitments@, pt, proofs@, k as nat) == s_k);
                assert(commitments@[((k + 1) as nat) - 1] == l_com && proofs@[((k + 1) as nat) - 1] == pr);
                assert(sponge.st@ == hyrax_state(s0, ck, commitments@, pt, proofs@, (k + 1) as nat));
                assert(c@ == hyrax_chal(s0, ck, commitments@, pt, proofs@, k as nat));
                assert(hyrax_honest(ck, states@[k], hyrax_l(pt), hyrax_r(pt), &proofs@[k], hyrax_chal(s0, ck, commitments@, pt, proofs@, k as nat), id0, pos0 + k as nat * (dim as nat + 3), dim as nat)) by {
                    reveal(hyrax_honest);
                    assert(posk == pos0 + k * (dim + 3));
                    assert(fviews(d@) =~= Seq::new(dim as nat, |j: int| draw(id0, posk + 1 + j as nat)));
                    assert(fviews(lt@) =~= Seq::new(state.mat.m as nat, |col: int| ip(fviews(l@), Seq::new(state.mat.n as nat, |rw: int| state.mat.entries@[rw]@[col]@))));
                }
                assert forall|i: int| 0 <= i < k implies hyrax_honest(ck, (#[trigger] states@[i]), hyrax_l(pt), hyrax_r(pt), &proofs@[i], hyrax_chal(s0, ck, commitments@, pt, proofs@, i as nat), id0, pos0 + i as nat * (dim as nat + 3), dim as nat) by {
                    assert(hyrax_chal(s0, ck, commitments@, pt, proofs@, i as nat) == hyrax_chal(s0, ck, commitments@, pt, pr0, i as nat));
                }
            }
//@end

}
