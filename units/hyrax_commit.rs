// HyraxPC::commit (hyrax/mod.rs), in both build configurations  (C07, C08, C19, C17)
//@use core ops_gen labeled_comm sponge std ser
//@spec ring vec_spec
//@typemap /<G>/ => 
//@typemap /Self::CommitterKey/ => HyraxUniversalParams
//@typemap /Self::Commitment\b/ => HyraxCommitment
//@typemap /Self::CommitmentState/ => HyraxCommitmentState
//@typemap /Self::Error/ => Error
//@typemap /G::ScalarField::/ => Fr::
//@typemap /Vec<G>/ => Vec<G1Affine>
//@typemap /: G,/ => : G1Affine,
//@typemap /Matrix<F>/ => Matrix
//@typemap /Vec<Vec<F>>/ => Vec<Vec<Fr>>
//@typemap /Vec<F>/ => Vec<Fr>
//@typemap /HyraxRandomness<F>/ => Vec<Fr>
//@enum file=poly-commit/src/error.rs name=Error
//@struct file=poly-commit/src/utils.rs name=Matrix
//@struct file=poly-commit/src/hyrax/data_structures.rs name=HyraxUniversalParams
//@struct file=poly-commit/src/hyrax/data_structures.rs name=HyraxCommitment
//@struct file=poly-commit/src/hyrax/data_structures.rs name=HyraxCommitmentState
pub open spec fn mat_wf(m: &Matrix) -> bool { m.entries@.len() == m.n && forall|r: int| 0 <= r < m.n ==> (#[trigger] m.entries@[r])@.len() == m.m }
pub open spec fn pedersen(key: Seq<G1Affine>, s: Seq<FS>) -> FS { msm(key, s, min(key.len(), s.len())) }
impl Matrix {
//@stub from=matrix.rs id=utils.Matrix.new_from_rows
}
//@stub from=matrix.rs id=hyrax.flat_to_matrix_column_major
// ---- trusted environment: the multilinear polynomial (ark-poly DenseMultilinearExtension) and the thread-local RNG ----
pub struct MLPoly { pub num_vars: usize, pub evals: Vec<Fr> }
impl MLPoly {
    #[verifier::external_body] pub fn num_vars(&self) -> (r: usize) ensures r == self.num_vars { unimplemented!() }
    #[verifier::external_body] pub fn to_evaluations(&self) -> (r: Vec<Fr>) ensures r@ == self.evals@, r@.len() == vstd::arithmetic::power2::pow2(self.num_vars as nat) { unimplemented!() }
}
pub struct LabeledML { pub label: String, pub polynomial: MLPoly }
impl LabeledML {
    pub fn label(&self) -> (r: &String) ensures *r == self.label { &self.label }
    pub fn polynomial(&self) -> (r: &MLPoly) ensures *r == self.polynomial { &self.polynomial }
}
// rand::thread_rng(): a generator that is NOT the caller's (its identity is a fixed unknown, distinct stream)
pub uninterp spec fn thread_rng_id() -> int;
#[verifier::external_body] pub fn thread_rng() -> (r: Rng) ensures r.present@, r.id@ == thread_rng_id() { unimplemented!() }

// ======================= specification =======================
// commitment i: one Pedersen commitment per row of the 2^(n/2) x 2^(n/2) evaluation matrix (column-major), row j blinded with
// h * r_j where r_j is the j-th draw (from position pos) of the generator `id`
#[verifier::opaque]
pub open spec fn hyrax_commit_shape(ck: &HyraxUniversalParams, p: &LabeledML, c: &LabeledCommitment<HyraxCommitment>, st: &HyraxCommitmentState) -> bool {
    let n = p.polynomial.num_vars as nat; let dim = vstd::arithmetic::power2::pow2(n / 2);
    c.label == p.label && c.degree_bound == Some(1usize)
    && c.commitment.row_coms@.len() == dim && st.randomness@.len() == dim        // square-root size
    && st.mat.n == dim && st.mat.m == dim && mat_wf(&st.mat)
    && (forall|row: int, col: int| 0 <= row < dim && 0 <= col < dim ==> #[trigger] st.mat.entries@[row]@[col] == p.polynomial.evals@[col * dim + row])
    && (forall|j: int| 0 <= j < dim ==> (#[trigger] c.commitment.row_coms@[j])@ == f_add(pedersen(ck.com_key@, fviews(st.mat.entries@[j]@)), f_mul(ck.h@, st.randomness@[j]@)))
}
// the blinding scalars are consecutive fresh draws of the generator `id`, starting at position pos
pub open spec fn hyrax_draws_from(st: &HyraxCommitmentState, id: int, pos: nat) -> bool {
    forall|j: int| 0 <= j < st.randomness@.len() ==> (#[trigger] st.randomness@[j])@ == draw(id, pos + j as nat)
}
pub open spec fn hyrax_commit_one(ck: &HyraxUniversalParams, p: &LabeledML, c: &LabeledCommitment<HyraxCommitment>, st: &HyraxCommitmentState, id: int, pos: nat) -> bool {
    hyrax_commit_shape(ck, p, c, st) && hyrax_draws_from(st, id, pos)
}
pub open spec fn hyrax_draws(ps: Seq<&LabeledML>, k: nat) -> nat decreases k { if k == 0 { 0 } else { hyrax_draws(ps, (k - 1) as nat) + vstd::arithmetic::power2::pow2((ps[k - 1].polynomial.num_vars / 2) as nat) } }
pub open spec fn hyrax_admissible(ck: &HyraxUniversalParams, p: &LabeledML) -> bool { p.polynomial.num_vars % 2 == 0 && p.polynomial.num_vars <= ck.com_key@.len() }

// the i-th generator: hash-to-curve of (PROTOCOL_NAME, i[, j]), cofactor cleared - a deterministic function of i  [the sampling closure is outside the verified text]
pub uninterp spec fn hyrax_gen(i: nat) -> AS;
#[verifier::external_body] pub fn hyrax_sample_point(i: u64) -> (g: G1) ensures g@ == hyrax_gen(i as nat) { unimplemented!() }
pub struct HyraxPC;
impl HyraxPC {
//@stub from=hyrax.rs id=hyrax.pedersen_commit

//@fn id=hyrax.commit file=poly-commit/src/hyrax/mod.rs scope="impl<G, P> PolynomialCommitment<G::ScalarField, P> for HyraxPC<G, P>" name=commit props=C07,C08,C19,C17
    fn commit<'a>(ck: &HyraxUniversalParams, polynomials: Vec<&'a LabeledML>, rng: Option<&mut Rng>) -> (res: Result<(Vec<LabeledCommitment<HyraxCommitment>>, Vec<HyraxCommitmentState>), Error>)
    requires
        forall|i: int| 0 <= i < polynomials@.len() ==> (#[trigger] polynomials@[i]).polynomial.num_vars < 64,     // (2^num_vars evaluations are held in memory)
        rng is Some ==> rng->Some_0.present@,
    ensures
        res is Ok ==> (forall|i: int| 0 <= i < polynomials@.len() ==> hyrax_admissible(ck, (#[trigger] polynomials@[i]))),   // name=hyrax.commit.odd_or_too_many_variables_refused props=C17
        res is Ok ==> res->Ok_0.0@.len() == polynomials@.len() && res->Ok_0.1@.len() == polynomials@.len(),   // name=hyrax.commit.one_commitment_and_state_per_polynomial props=C19
        // every row commitment = Pedersen commitment to the row + h * (a fresh draw from the CALLER's generator)
        res is Ok ==> (forall|i: int| 0 <= i < polynomials@.len() ==> hyrax_commit_one(ck, (#[trigger] polynomials@[i]), &res->Ok_0.0@[i], &res->Ok_0.1@[i],
            old(rng->Some_0).id@, old(rng->Some_0).pos@ + hyrax_draws(polynomials@, i as nat))),   // name=hyrax.commit.rows_blinded_with_fresh_draws_of_the_callers_rng props=C07,C08,C19
        (res is Ok && polynomials@.len() > 0) ==> rng is Some,   // name=hyrax.commit.no_rng_no_commitment props=C07,C17
//@body
//@cfg !parallel
//@rw * /rng\.expect\("[^"]*"\)/ => &mut expect_rng(rng)
//@rw * /rand::thread_rng\(\)/ => thread_rng()
//@rw * /label\.to_string\(\)/ => string_to_string(label)
//@rw 1 /let mut coms = Vec::new\(\);/ => let mut coms: Vec<LabeledCommitment<HyraxCommitment>> = Vec::new();
//@rw 1 /let mut states = Vec::new\(\);/ => let mut states: Vec<HyraxCommitmentState> = Vec::new();
//@rw 1 /let dim = 1 << n \/ 2;/ => proof { vstd::arithmetic::power2::lemma_pow2_strictly_increases((n / 2) as nat, 64); vstd::arithmetic::power2::lemma2_to64(); vstd::arithmetic::power2::lemma_pow2_pos((n / 2) as nat); vstd::bits::lemma_usize_shl_is_mul(1usize, (n / 2) as usize); }
            let dim: usize = 1 << n / 2;
//@rw 1 /(?s)let \(row_coms, com_rands\): \(Vec<_>, Vec<_>\) = cfg_iter!\(m\)\s*\.map\(\|row\| \{(.*?)\(c, r\)\s*\}\)\s*\.unzip\(\);/ => let mut row_coms: Vec<G1Affine> = Vec::new(); let mut com_rands: Vec<Fr> = Vec::new();
            let ghost posk = rng_inner.pos@;
            for row in itr: m.iter()
                invariant itr.index@ <= m@.len(), row_coms@.len() == itr.index@, com_rands@.len() == itr.index@,
                    rng_inner.id@ == id0 && rng_inner.present@ && rng_inner.pos@ == posk + itr.index@, forall|j: int| 0 <= j < itr.index@ ==> (#[trigger] com_rands@[j])@ == draw(id0, posk + j as nat),
                    forall|j: int| 0 <= j < itr.index@ ==> (#[trigger] row_coms@[j])@ == f_add(pedersen(ck.com_key@, fviews(m@[j]@)), f_mul(ck.h@, com_rands@[j]@)),
            {
                \1
                row_coms.push(c); com_rands.push(r);
            }
//@after start
        let ghost id0 = if rng is Some { rng->Some_0.id@ } else { 0 };
        let ghost pos0 = if rng is Some { rng->Some_0.pos@ } else { 0 };
//@loop 1 kw=for name=it
            invariant it.index@ <= polynomials@.len(), coms@.len() == it.index@, states@.len() == it.index@,
                forall|i: int| 0 <= i < polynomials@.len() ==> (#[trigger] polynomials@[i]).polynomial.num_vars < 64,
                rng_inner.id@ == id0 && rng_inner.present@ && rng_inner.pos@ == pos0 + hyrax_draws(polynomials@, it.index@ as nat),
                forall|i: int| 0 <= i < it.index@ ==> hyrax_admissible(ck, (#[trigger] polynomials@[i])) && hyrax_commit_one(ck, polynomials@[i], &coms@[i], &states@[i], id0, pos0 + hyrax_draws(polynomials@, i as nat)),
//@loopstart 1
            let ghost k = it.index@;
//@loopend 1
            proof {
                assert(hyrax_commit_one(ck, polynomials@[k], &coms@[k], &states@[k], id0, pos0 + hyrax_draws(polynomials@, k as nat))) by {
                    reveal(hyrax_commit_shape);
                    let st = &states@[k]; let c = &coms@[k];
                    assert(st.mat.entries@ == m0);
                    assert(posk == pos0 + hyrax_draws(polynomials@, k as nat));
                }
            }
//@before /let com = HyraxCommitment \{ row_coms \};/
            let ghost m0 = m@;
//@before /let m = flat_to_matrix_column_major/
            proof {
                assert(l_poly == polynomials@[k]);
                vstd::arithmetic::power2::lemma_pow2_adds((n / 2) as nat, (n / 2) as nat);
                vstd::arithmetic::power2::lemma_pow2_strictly_increases(n as nat, 64); vstd::arithmetic::power2::lemma2_to64();
                assert(dim * dim == vstd::arithmetic::power2::pow2(n as nat));
            }
//@end

//@fn id=hyrax.setup file=poly-commit/src/hyrax/mod.rs scope="impl<G, P> PolynomialCommitment<G::ScalarField, P> for HyraxPC<G, P>" name=setup props=C09,C19,C17
    fn setup(_max_degree: usize, num_vars: Option<usize>, _rng: &mut Rng) -> (res: Result<HyraxUniversalParams, Error>)
    requires
        num_vars is Some ==> num_vars->Some_0 < 126,
    ensures
        (res is Err) == (num_vars is None || num_vars->Some_0 % 2 == 1),   // name=hyrax.setup.odd_or_missing_number_of_variables_refused props=C17
        // one generator per column of the 2^(n/2) x 2^(n/2) matrix, plus h: each derived from its index
        res is Ok ==> res->Ok_0.com_key@.len() == vstd::arithmetic::power2::pow2((num_vars->Some_0 / 2) as nat),   // name=hyrax.setup.square_root_many_generators props=C09,C19
        res is Ok ==> (forall|i: int| 0 <= i < res->Ok_0.com_key@.len() ==> (#[trigger] res->Ok_0.com_key@[i])@ == hyrax_gen(i as nat))
            && res->Ok_0.h@ == hyrax_gen(res->Ok_0.com_key@.len()),   // name=hyrax.setup.generators_derived_from_index props=C09
//@body
//@rw 1 /(?s)ark_std::cfg_into_iter!\(0u64\.\.dim \+ 1\)\s*\.map\(\|i\| \{.*?point\.mul_by_cofactor_to_group\(\)\s*\}\)/ => (0u64..dim + 1).map(|i: u64| -> (g: G1) ensures g@ == hyrax_gen(i as nat) { hyrax_sample_point(i) })
//@rw 1 /let dim = 1 << n \/ 2;/ => proof { vstd::arithmetic::power2::lemma_pow2_strictly_increases((n / 2) as nat, 63); vstd::arithmetic::power2::lemma_pow2_strictly_increases(63, 64); vstd::arithmetic::power2::lemma2_to64(); vstd::arithmetic::power2::lemma_pow2_pos((n / 2) as nat); vstd::bits::lemma_u64_shl_is_mul(1u64, (n / 2) as u64); }
        let dim: u64 = 1 << n / 2;
//@rw 1 /let points: Vec<_> =/ => let points: Vec<G1> =
//@rw 1 /G::Group::normalize_batch/ => G1::normalize_batch
//@rw 1 /let h: G = points\.pop\(\)\.unwrap\(\);/ => let h: G1Affine = points.pop().unwrap_abort();
//@end

//@fn id=hyrax.commit.parallel file=poly-commit/src/hyrax/mod.rs scope="impl<G, P> PolynomialCommitment<G::ScalarField, P> for HyraxPC<G, P>" name=commit props=C07,C08,C19,C17
    // the DEFAULT build (feature "parallel"): same source function, the other branch of its #[cfg] attributes
    fn commit__parallel<'a>(ck: &HyraxUniversalParams, polynomials: Vec<&'a LabeledML>, rng: Option<&mut Rng>) -> (res: Result<(Vec<LabeledCommitment<HyraxCommitment>>, Vec<HyraxCommitmentState>), Error>)
    requires
        forall|i: int| 0 <= i < polynomials@.len() ==> (#[trigger] polynomials@[i]).polynomial.num_vars < 64,
    ensures
        res is Ok ==> (forall|i: int| 0 <= i < polynomials@.len() ==> hyrax_admissible(ck, (#[trigger] polynomials@[i]))),   // name=hyrax.commit.parallel.odd_or_too_many_variables_refused props=C17
        res is Ok ==> res->Ok_0.0@.len() == polynomials@.len() && res->Ok_0.1@.len() == polynomials@.len(),   // name=hyrax.commit.parallel.one_commitment_and_state_per_polynomial props=C19
        res is Ok ==> (forall|i: int| 0 <= i < polynomials@.len() ==> hyrax_commit_shape(ck, (#[trigger] polynomials@[i]), &res->Ok_0.0@[i], &res->Ok_0.1@[i])),   // name=hyrax.commit.parallel.rows_are_blinded_pedersen_commitments props=C08,C19
        // C07: the blinding comes from the caller's generator, and without one nothing is committed
        res is Ok && rng is Some ==> (forall|i: int| 0 <= i < polynomials@.len() ==> hyrax_draws_from(&(#[trigger] res->Ok_0.1@[i]), old(rng->Some_0).id@, old(rng->Some_0).pos@ + hyrax_draws(polynomials@, i as nat))),   // name=hyrax.commit.parallel.blinding_drawn_from_the_callers_rng props=C07 finding=F9
        (res is Ok && polynomials@.len() > 0) ==> rng is Some,   // name=hyrax.commit.parallel.no_rng_no_commitment props=C07,C17 finding=F9
//@body
//@cfg parallel
//@rw * /rand::thread_rng\(\)/ => thread_rng()
//@rw * /label\.to_string\(\)/ => string_to_string(label)
//@rw 1 /let mut coms = Vec::new\(\);/ => let mut coms: Vec<LabeledCommitment<HyraxCommitment>> = Vec::new();
//@rw 1 /let mut states = Vec::new\(\);/ => let mut states: Vec<HyraxCommitmentState> = Vec::new();
//@rw 1 /let dim = 1 << n \/ 2;/ => proof { vstd::arithmetic::power2::lemma_pow2_strictly_increases((n / 2) as nat, 64); vstd::arithmetic::power2::lemma2_to64(); vstd::arithmetic::power2::lemma_pow2_pos((n / 2) as nat); vstd::bits::lemma_usize_shl_is_mul(1usize, (n / 2) as usize); }
            let dim: usize = 1 << n / 2;
//@rw 1 /(?s)let \(row_coms, com_rands\): \(Vec<_>, Vec<_>\) = cfg_iter!\(m\)\s*\.map\(\|row\| \{(.*?)\(c, r\)\s*\}\)\s*\.unzip\(\);/ => let mut row_coms: Vec<G1Affine> = Vec::new(); let mut com_rands: Vec<Fr> = Vec::new();
            for row in itr: m.iter()
                invariant itr.index@ <= m@.len(), row_coms@.len() == itr.index@, com_rands@.len() == itr.index@,
                    forall|j: int| 0 <= j < itr.index@ ==> (#[trigger] row_coms@[j])@ == f_add(pedersen(ck.com_key@, fviews(m@[j]@)), f_mul(ck.h@, com_rands@[j]@)),
            {
                \1
                row_coms.push(c); com_rands.push(r);
            }
//@loop 1 kw=for name=it
            invariant it.index@ <= polynomials@.len(), coms@.len() == it.index@, states@.len() == it.index@,
                forall|i: int| 0 <= i < polynomials@.len() ==> (#[trigger] polynomials@[i]).polynomial.num_vars < 64,
                forall|i: int| 0 <= i < it.index@ ==> hyrax_admissible(ck, (#[trigger] polynomials@[i])) && hyrax_commit_shape(ck, polynomials@[i], &coms@[i], &states@[i]),
//@loopstart 1
            let ghost k = it.index@;
//@loopend 1
            proof {
                assert(hyrax_commit_shape(ck, polynomials@[k], &coms@[k], &states@[k])) by {
                    reveal(hyrax_commit_shape);
                    let st = &states@[k]; let c = &coms@[k];
                    assert(st.mat.entries@ == m0);
                }
            }
//@before /let com = HyraxCommitment \{ row_coms \};/
            let ghost m0 = m@;
//@before /let m = flat_to_matrix_column_major/
            proof {
                assert(l_poly == polynomials@[k]);
                vstd::arithmetic::power2::lemma_pow2_adds((n / 2) as nat, (n / 2) as nat);
                vstd::arithmetic::power2::lemma_pow2_strictly_increases(n as nat, 64); vstd::arithmetic::power2::lemma2_to64();
                assert(dim * dim == vstd::arithmetic::power2::pow2(n as nat));
            }
//@end
}
