// streaming_kzg/space.rs: the space-efficient committer and single-point prover, and their EQUALITY with the time-efficient ones  (C14, C08, C01)
//@use core ops_gen poly std
//@spec ring longdiv_spec
//@typemap /<E, SG>/ =>
//@typemap /<E>/ =>
//@typemap /: SG,/ => : Vec<G1Affine>,
//@typemap /E::ScalarField::/ => Fr::
//@typemap /ChunkedPippenger<E::G1>/ => ChunkedPippenger
//@typemap /<E::G1 as VariableBaseMSM>::/ => G1::
//@struct file=poly-commit/src/streaming_kzg/space.rs name=CommitterKeyStream
//@struct file=poly-commit/src/streaming_kzg/mod.rs name=Commitment
//@struct file=poly-commit/src/streaming_kzg/time.rs name=CommitterKey
//@struct file=poly-commit/src/streaming_kzg/mod.rs name=EvaluationProof
// ---- trusted environment (ark-ec streaming MSM) ----
// ChunkedPippenger: a buffered multi-scalar multiplication; `add` contributes base * scalar, `finalize` returns the sum (buffer size irrelevant)
pub struct ChunkedPippenger { pub acc: Ghost<FS> }
impl ChunkedPippenger {
    #[verifier::external_body] pub fn new(max_msm_buffer: usize) -> (r: Self) ensures r.acc@ == f_zero() { unimplemented!() }
    #[verifier::external_body] pub fn add(&mut self, base: &G1Affine, scalar: BigInt) ensures final(self).acc@ == f_add(old(self).acc@, f_mul(base@, scalar@)) { unimplemented!() }
    #[verifier::external_body] pub fn finalize(self) -> (r: G1) ensures r@ == self.acc@ { unimplemented!() }
}
// VariableBaseMSM::msm_chunks(bases, scalars): sum_i scalars[i] * bases[offset + i], offset = |bases| - |scalars| (more scalars than bases: abort)
#[verifier::external_body] pub fn msm_chunks(bases: &Vec<G1Affine>, scalars: &Vec<Fr>) -> (r: G1)
    ensures scalars@.len() <= bases@.len(), r@ == dot(g1views(bases@.subrange(bases@.len() - scalars@.len(), bases@.len() as int)), fviews(scalars@), scalars@.len()) { unimplemented!() }
// `v.iter().skip(k)` as the tail slice (k > len: empty)
#[verifier::external_body] pub fn tail_g1(v: &Vec<G1Affine>, k: usize) -> (r: &[G1Affine]) requires k <= v@.len() ensures r@ == v@.subrange(k as int, v@.len() as int) { unimplemented!() }
#[verifier::external_body] pub fn slice_to_vec_g1(s: &[G1Affine]) -> (r: Vec<G1Affine>) ensures r@ == s@ { unimplemented!() }                    // iter().map(|x| *x.borrow()).collect()
#[verifier::external_body] pub fn vec_reverse_g1(v: &mut Vec<G1Affine>) ensures final(v)@.len() == old(v)@.len(), forall|i: int| 0 <= i < old(v)@.len() ==> final(v)@[i] == old(v)@[old(v)@.len() - 1 - i] { unimplemented!() }   // <[T]>::reverse
#[verifier::external_body] pub fn vec_g2_clone(v: &Vec<G2Affine>) -> (r: Vec<G2Affine>) ensures r@ == v@ { unimplemented!() }
// std VecDeque used as a sliding window: a sequence (front = index 0)
pub struct VDq { pub v: Ghost<Seq<Fr>> }
impl VDq {
    #[verifier::external_body] pub fn with_capacity(n: usize) -> (r: Self) ensures r.v@.len() == 0 { unimplemented!() }
    #[verifier::external_body] pub fn push_back(&mut self, x: Fr) ensures final(self).v@ == old(self).v@.push(x) { unimplemented!() }
    #[verifier::external_body] pub fn pop_front_unwrap(&mut self) -> (r: Fr) ensures old(self).v@.len() > 0, r == old(self).v@[0], final(self).v@ == old(self).v@.subrange(1, old(self).v@.len() as int) { unimplemented!() }   // pop_front().unwrap(): empty aborts
    #[verifier::external_body] pub fn sub_at(&mut self, i: usize, d: Fr) ensures i < old(self).v@.len(), final(self).v@.len() == old(self).v@.len(), final(self).v@[i as int]@ == f_sub(old(self).v@[i as int]@, d@),
        forall|j: int| 0 <= j < old(self).v@.len() && j != i ==> final(self).v@[j] == old(self).v@[j] { unimplemented!() }       // state[i] -= d  (out of range aborts)
    #[verifier::external_body] pub fn to_vec(&self) -> (r: Vec<Fr>) ensures r@ == self.v@ { unimplemented!() }                       // make_contiguous().to_vec()
}
// vanishing_polynomial (streaming_kzg/mod.rs): prod_j (X - point_j), monic of degree n   [contract proved in units/streaming_helpers.rs]
pub open spec fn vprod(pts: Seq<Fr>, k: nat, x: FS) -> FS decreases k { if k == 0 { f_one() } else { f_mul(vprod(pts, (k - 1) as nat, x), f_sub(x, pts[k - 1]@)) } }
//@stub from=streaming_helpers.rs id=streaming.vanishing_polynomial vis=pub
// what the space-efficient multi-point prover returns: the remainder (big-endian, one coefficient per point) and the commitment to a quotient q with f = q Z + r
pub open spec fn smp_rel(ck: &CommitterKeyStream, f: Seq<Fr>, pts: Seq<Fr>, rem: Seq<Fr>, proof_v: FS, q: Seq<FS>) -> bool {
    let n = f.len(); let m = pts.len();
    rem.len() == m && q.len() == n - m
    && (forall|x: FS| be(fviews(f), x, n) == f_add(f_mul(#[trigger] be(q, x, (n - m) as nat), vprod(pts, m, x)), be(fviews(rem), x, m)))
    && proof_v == dot(g1views(ck.powers_of_g@.subrange(ck.powers_of_g@.len() - n + m, ck.powers_of_g@.len() as int)), q, (n - m) as nat)
}
// ======================= specification =======================
pub open spec fn rev(s: Seq<FS>) -> Seq<FS> { Seq::new(s.len(), |i: int| s[s.len() - 1 - i]) }
// Horner synthetic division on the little-endian coefficient vector p (same definition as units/streaming.rs): h_k = p[n-k] + h_{k-1} a
pub open spec fn horner(p: Seq<FS>, a: FS, k: nat) -> FS decreases k {
    if k == 0 { f_zero() } else { f_add(p[p.len() - k], f_mul(horner(p, a, (k - 1) as nat), a)) }
}
// sum_{i<k} bases[i] * horner(p, a, i)
pub open spec fn qsum(b: Seq<FS>, p: Seq<FS>, a: FS, k: nat) -> FS decreases k { if k == 0 { f_zero() } else { f_add(qsum(b, p, a, (k - 1) as nat), f_mul(b[k - 1], horner(p, a, (k - 1) as nat))) } }
impl CommitterKeyStream {
//@fn id=streaming.space.as_committer_key file=poly-commit/src/streaming_kzg/space.rs scope="impl<E, SG> CommitterKeyStream<E, SG>" name=as_committer_key props=C14,C09
    pub fn as_committer_key(&self, max_degree: usize) -> (r: CommitterKey)
    requires
        max_degree <= self.powers_of_g@.len(),      // (a larger degree underflows the offset: abort)
    ensures
        // the in-memory key is the REVERSED tail of the key stream (the stream lists the powers from the highest down)
        r.powers_of_g@.len() == max_degree && (forall|j: int| 0 <= j < max_degree ==> r.powers_of_g@[j] == self.powers_of_g@[self.powers_of_g@.len() - 1 - j]),   // name=streaming.space.as_committer_key.reversed_tail_of_the_stream props=C14,C09
        r.powers_of_g2@ == self.powers_of_g2@,
//@body
//@rw 1 /(?s)self\s*\.powers_of_g\s*\.iter\(\)\s*\.skip\(offset\)\s*\.map\(\|x\| \*x\.borrow\(\)\)\s*\.collect::<Vec<_>>\(\)/ => slice_to_vec_g1(tail_g1(&self.powers_of_g, offset))
//@rw 1 /powers_of_g\.reverse\(\);/ => vec_reverse_g1(&mut powers_of_g);
//@rw 1 /self\.powers_of_g2\.clone\(\)\.to_vec\(\)/ => vec_g2_clone(&self.powers_of_g2)
//@end
//@fn id=streaming.space.open_multi_points file=poly-commit/src/streaming_kzg/space.rs scope="impl<E, SG> CommitterKeyStream<E, SG>" name=open_multi_points props=C14,C01,C19
    pub fn open_multi_points(&self, polynomial: &Vec<Fr>, points: &[Fr], max_msm_buffer: usize) -> (r: (Vec<Fr>, EvaluationProof))
    requires
        points@.len() >= 1, points@.len() <= polynomial@.len(), polynomial@.len() <= self.powers_of_g@.len(),      // (fewer coefficients than points, or a polynomial longer than the key: abort)
        polynomial@.len() < usize::MAX,
    ensures
        exists|q: Seq<FS>| #[trigger] smp_rel(self, polynomial@, points@, r.0@, r.1.0@, q),   // name=streaming.space.open_multi_points.remainder_and_quotient_commitment_of_the_division_by_the_vanishing_polynomial props=C14,C01,C19
//@body
//@rw 1 /let bases_init = self\.powers_of_g\.iter\(\);/ => let bases_unused__ = 0usize;
//@rw 1 /let mut bases = bases_init\.skip\(([^;]*)\);/ => let bases_t__ = tail_g1(&self.powers_of_g, \1); let mut bi__: usize = 0;
//@rw 1 /VecDeque::<E::ScalarField>::with_capacity\(points\.len\(\)\)/ => VDq::with_capacity(points.len())
//@rw 1 /let mut polynomial_iterator = polynomial\.iter\(\);/ => let mut pi__: usize = 0;
//@rw 1 /(?s)\(0\.\.points\.len\(\)\)\.for_each\(\|_\| \{\s*state\.push_back\(\*polynomial_iterator\.next\(\)\.unwrap\(\)\.borrow\(\)\);\s*\}\);/ => for _k in ita: 0..points.len() invariant pi__ == ita.index@, state.v@ =~= polynomial@.subrange(0, pi__ as int), m == points@.len(), m <= polynomial@.len(), { state.push_back(polynomial[pi__]); pi__ += 1; }
//@rw 1 /for coefficient in polynomial_iterator \{/ => while pi__ < polynomial.len() invariant m == points@.len(), m >= 1, n == polynomial@.len(), m <= pi__ <= n, n <= self.powers_of_g@.len(), n < usize::MAX, state.v@.len() == m, qs.len() == pi__ - m, bi__ == pi__ - m, bases_t__@ == self.powers_of_g@.subrange(self.powers_of_g@.len() - n + m, self.powers_of_g@.len() as int), zeros.coeffs@.len() == m + 1, zeros.coeffs@[m as int]@ == f_one(), zc == fviews(zeros.coeffs@), zr.len() == m, (forall|i: int| 0 <= i < m ==> zr[i] == zc[m - 1 - i]), quotient.acc@ == dot(g1views(bases_t__@), qs, qs.len()), smp_inv(fviews(polynomial@), qs, fviews(state.v@), zr, m, pi__ as nat), decreases polynomial@.len() - pi__ { let coefficient = &polynomial[pi__]; pi__ += 1; let ghost st0 = state.v@; let ghost q0 = qs;
//@rw 1 /let coefficient = coefficient\.borrow\(\);/ => 
//@rw 1 /state\.pop_front\(\)\.unwrap\(\)/ => state.pop_front_unwrap()
//@rw 1 /(?s)\(0\.\.points\.len\(\)\)\.for_each\(\|i\| \{\s*state\[i\] -= (.*?);\s*\}\);/ => let ghost sh0 = state.v@; for i in itb: 0..points.len() invariant m == points@.len(), m >= 1, state.v@.len() == m, sh0.len() == m, zeros.coeffs@.len() == m + 1, zeros.coeffs@[m as int]@ == f_one(), zc == fviews(zeros.coeffs@), zr.len() == m, (forall|j: int| 0 <= j < m ==> zr[j] == zc[m - 1 - j]), (forall|j: int| 0 <= j < itb.index@ ==> (#[trigger] state.v@[j])@ == f_sub(sh0[j]@, f_mul(zr[j], quotient_coefficient@))), (forall|j: int| itb.index@ <= j < m ==> state.v@[j] == sh0[j]), { proof { ax_one_ne_zero(); assert(!zeros.is_zero_spec()) by { assert(zeros.coeffs@[m as int]@ == f_one()); } } let d__ = \1; state.sub_at(i, d__); }
//@rw 1 /let base = bases\.next\(\)\.unwrap\(\);/ => let base = &bases_t__[bi__]; bi__ += 1;
//@rw 1 /state\.make_contiguous\(\)\.to_vec\(\)/ => state.to_vec()
//@after /let zeros = vanishing_polynomial\(points\);/
        let ghost m = points@.len() as nat; let ghost n = polynomial@.len() as nat; let ghost zc = fviews(zeros.coeffs@); let ghost zr = Seq::new(m, |i: int| zc[m - 1 - i]);
        let ghost mut qs: Seq<FS> = Seq::empty();
        proof { ax_one_ne_zero(); assert(!zeros.is_zero_spec()) by { assert(zeros.coeffs@[m as int]@ == f_one()); } }
//@before /for coefficient in polynomial_iterator \{/
        proof { lemma_smp_init(fviews(polynomial@), fviews(state.v@), zr, m); assert(dot(g1views(bases_t__@), qs, 0) == f_zero()); }
//@after /quotient\.add\(base, quotient_coefficient\.into_bigint\(\)\);/
            proof {
                let fv = fviews(polynomial@); let k = q0.len();
                assert forall|i: int| 0 <= i < m implies fviews(state.v@)[i] == f_sub(fviews(st0).subrange(1, m as int).push(fv[pi__ - 1])[i], f_mul(zr[i], fviews(st0)[0])) by {
                    assert(sh0[i]@ == fviews(st0).subrange(1, m as int).push(fv[pi__ - 1])[i]);
                }
                lemma_smp_step(fv, q0, fviews(st0), fviews(state.v@), zr, m, (pi__ - 1) as nat);
                qs = q0.push(quotient_coefficient@);
                lemma_dot_ext(g1views(bases_t__@), g1views(bases_t__@), qs, q0, k);
            }
//@before /let remainder = state\.make_contiguous/
        proof {
            assert forall|x: FS| be(fviews(polynomial@), x, n) == f_add(f_mul(#[trigger] be(qs, x, (n - m) as nat), vprod(points@, m, x)), be(fviews(state.v@), x, m)) by {
                lemma_smp_final(fviews(polynomial@), qs, fviews(state.v@), zr, zc, m, x);
                assert(zeros.ev(x) == peval(zc, x, m + 1));
            }
        }
//@rw 1 /\(remainder, commitment\)/ => { let res__ = (remainder, commitment); proof { assert(smp_rel(self, polynomial@, points@, res__.0@, res__.1.0@, qs)); } res__ }
//@end
//@fn id=streaming.space.commit file=poly-commit/src/streaming_kzg/space.rs scope="impl<E, SG> CommitterKeyStream<E, SG>" name=commit props=C14,C08,C19
    pub fn commit(&self, polynomial: &Vec<Fr>) -> (r: Commitment)
    ensures
        polynomial@.len() <= self.powers_of_g@.len(),     // name=streaming.space.commit.polynomial_longer_than_key_aborts props=C17,C19
        // big-endian coefficient stream against the LAST |p| elements of the (descending) key stream
        r.0@ == dot(g1views(self.powers_of_g@.subrange(self.powers_of_g@.len() - polynomial@.len(), self.powers_of_g@.len() as int)), fviews(polynomial@), polynomial@.len()),   // name=streaming.space.commit.value props=C14,C08,C19
//@body
//@rw 1 /<E::G1 as VariableBaseMSM>::msm_chunks\(&self\.powers_of_g, polynomial\)/ => msm_chunks(&self.powers_of_g, polynomial)
//@end
//@fn id=streaming.space.batch_commit file=poly-commit/src/streaming_kzg/space.rs scope="impl<E, SG> CommitterKeyStream<E, SG>" name=batch_commit props=C14,C08,C19
    // (the slice of `&dyn Iterable` coefficient streams is instantiated at in-memory vectors, as for `commit`)
    pub fn batch_commit(&self, polynomials: &Vec<&Vec<Fr>>) -> (r: Vec<Commitment>)
    ensures
        forall|i: int| #![trigger r@[i]] 0 <= i < polynomials@.len() ==> polynomials@[i]@.len() <= self.powers_of_g@.len(),     // name=streaming.space.batch_commit.polynomial_longer_than_key_aborts props=C17,C19
        r@.len() == polynomials@.len(),     // name=streaming.space.batch_commit.one_commitment_per_polynomial props=C14,C19
        // the i-th commitment is `commit` of the i-th polynomial, in order
        forall|i: int| 0 <= i < polynomials@.len() ==> (#[trigger] r@[i]).0@ == dot(g1views(self.powers_of_g@.subrange(self.powers_of_g@.len() - polynomials@[i]@.len(), self.powers_of_g@.len() as int)), fviews(polynomials@[i]@), polynomials@[i]@.len()),   // name=streaming.space.batch_commit.value_in_order props=C14,C08,C19
//@body
//@rw 1 /polynomials\.iter\(\)((?:\.(?:rev|skip)\([^()]*\))*)\.map\(\|&(\w+)\| self\.commit\(\2\)\)\.collect\(\)/ => { let res__: Vec<Commitment> = polynomials.iter()\1.map(|p__: &&Vec<Fr>| -> (c: Commitment) ensures p__@.len() <= self.powers_of_g@.len(), c.0@ == dot(g1views(self.powers_of_g@.subrange(self.powers_of_g@.len() - p__@.len(), self.powers_of_g@.len() as int)), fviews(p__@), p__@.len()) { let p = *p__; self.commit(p) }).collect(); proof { assert forall|i: int| 0 <= i < polynomials@.len() implies polynomials@[i]@.len() <= self.powers_of_g@.len() by { let c__ = res__@[i]; let q__ = &polynomials@[i]; assert(q__@.len() <= self.powers_of_g@.len()); } } res__ }
//@end
//@fn id=streaming.space.open file=poly-commit/src/streaming_kzg/space.rs scope="impl<E, SG> CommitterKeyStream<E, SG>" name=open props=C14,C01,C19
    pub fn open(&self, polynomial: &Vec<Fr>, alpha: &Fr, max_msm_buffer: usize) -> (r: (Fr, EvaluationProof))
    requires
        polynomial@.len() <= self.powers_of_g@.len(),     // (a longer polynomial underflows the skip count: abort)
    ensures
        // the evaluation is Horner's value over the big-endian stream, i.e. p(alpha) for the polynomial whose little-endian coefficients are the reversed stream
        r.0@ == horner(rev(fviews(polynomial@)), alpha@, polynomial@.len()),   // name=streaming.space.open.evaluation_is_horner_over_the_stream props=C14,C01,C19
        // the proof: the i-th key element of the aligned tail times the Horner value BEFORE the i-th coefficient is absorbed
        r.1.0@ == qsum(g1views(self.powers_of_g@.subrange(self.powers_of_g@.len() - polynomial@.len(), self.powers_of_g@.len() as int)), rev(fviews(polynomial@)), alpha@, polynomial@.len()),   // name=streaming.space.open.proof_commits_to_the_horner_quotient props=C14,C01,C19
//@body
//@rw 1 /let bases_init = self\.powers_of_g\.iter\(\);/ => let bases_unused__ = 0usize;
//@rw 1 /let bases = bases_init\.skip\(([^;]*)\);/ => let bases_t__ = tail_g1(&self.powers_of_g, \1);
//@rw 1 /let scalars = polynomial\.iter\(\);/ => let scalars_unused__ = 0usize;
//@rw 1 /scalars\.zip\(bases\)/ => polynomial.iter().zip(bases_t__.iter())
//@rw 1 /scalar\.borrow\(\)/ => scalar
//@loop 1 kw=for name=it
            invariant it.index@ <= polynomial@.len(), polynomial@.len() <= self.powers_of_g@.len(), bases_t__@ == self.powers_of_g@.subrange(self.powers_of_g@.len() - polynomial@.len(), self.powers_of_g@.len() as int),
                previous@ == horner(rev(fviews(polynomial@)), alpha@, it.index@ as nat),
                quotient.acc@ == qsum(g1views(self.powers_of_g@.subrange(self.powers_of_g@.len() - polynomial@.len(), self.powers_of_g@.len() as int)), rev(fviews(polynomial@)), alpha@, it.index@ as nat),
//@loopstart 1
            let ghost k0 = it.index@; let ghost prev0 = previous@;
//@loopend 1
            proof {
                let pv = fviews(polynomial@);
                assert(rev(pv)[pv.len() - (k0 + 1)] == pv[k0]);
                assert(pv[k0] == scalar@);
                ax_add_comm(f_mul(prev0, alpha@), scalar@);
            }
//@end
}
// ======================= C14: the space-efficient and the time-efficient provers return the SAME commitment, evaluation and proof =======================
// sum with the first term split off
proof fn lemma_dot_front(a: Seq<FS>, b: Seq<FS>, n: nat)
    requires 1 <= n <= a.len(), n <= b.len()
    ensures dot(a, b, n) == f_add(f_mul(a[0], b[0]), dot(a.subrange(1, a.len() as int), b.subrange(1, b.len() as int), (n - 1) as nat))
    decreases n
{
    let a1 = a.subrange(1, a.len() as int); let b1 = b.subrange(1, b.len() as int);
    if n == 1 { assert(dot(a, b, 0) == f_zero() && dot(a1, b1, 0) == f_zero()); ax_add_comm(f_zero(), f_mul(a[0], b[0])); }
    else {
        lemma_dot_front(a, b, (n - 1) as nat);
        assert(a1[n - 2] == a[n - 1] && b1[n - 2] == b[n - 1]);
        ax_add_assoc(f_mul(a[0], b[0]), dot(a1, b1, (n - 2) as nat), f_mul(a[n - 1], b[n - 1]));
    }
}
// a sum does not depend on the order: reversing both sequences gives the same inner product
pub proof fn lemma_dot_rev(a: Seq<FS>, b: Seq<FS>, ar: Seq<FS>, br: Seq<FS>, n: nat)
    requires n <= a.len(), n <= b.len(), n <= ar.len(), n <= br.len(), forall|i: int| 0 <= i < n ==> ar[i] == a[n - 1 - i] && br[i] == b[n - 1 - i]
    ensures dot(ar, br, n) == dot(a, b, n)
    decreases n
{
    if n > 0 {
        let a1 = a.subrange(1, a.len() as int); let b1 = b.subrange(1, b.len() as int);
        lemma_dot_front(a, b, n);
        assert forall|i: int| 0 <= i < n - 1 implies ar[i] == a1[n - 2 - i] && br[i] == b1[n - 2 - i] by { }
        lemma_dot_rev(a1, b1, ar, br, (n - 1) as nat);
        ax_add_comm(f_mul(a[0], b[0]), dot(a1, b1, (n - 1) as nat));
    }
}
// the key of the time-efficient prover is the reversed tail of the key stream (what as_committer_key returns)
pub open spec fn key_rel(tk: Seq<FS>, sk: Seq<FS>) -> bool { tk.len() <= sk.len() && forall|j: int| 0 <= j < tk.len() ==> tk[j] == sk[sk.len() - 1 - j] }
//@lemma props=C14
pub proof fn lemma_space_commit_equals_time_commit(tk: Seq<FS>, sk: Seq<FS>, tp: Seq<FS>, sp: Seq<FS>)
    requires key_rel(tk, sk), tp.len() <= tk.len(), sp.len() == tp.len(), forall|i: int| 0 <= i < tp.len() ==> sp[i] == tp[tp.len() - 1 - i]     // same polynomial: little-endian vector / big-endian stream
    ensures dot(sk.subrange(sk.len() - sp.len(), sk.len() as int), sp, sp.len())        // clause streaming.space.commit.value
         == dot(tk, tp, tp.len())                                                          // clause streaming.time.commit.value
{
    let n = tp.len(); let st = sk.subrange(sk.len() - n, sk.len() as int);
    assert forall|i: int| 0 <= i < n implies st[i] == tk[n - 1 - i] && sp[i] == tp[n - 1 - i] by { }
    lemma_dot_rev(tk, tp, st, sp, n);
}
// the space prover's proof sum, without its vanishing first term, as an inner product
proof fn lemma_qsum_as_dot(b: Seq<FS>, p: Seq<FS>, a: FS, c: Seq<FS>, e: Seq<FS>, k: nat)
    requires 1 <= k <= b.len(), k - 1 <= c.len(), k - 1 <= e.len(), forall|m: int| 0 <= m < k - 1 ==> c[m] == b[m + 1] && e[m] == horner(p, a, (m + 1) as nat)
    ensures qsum(b, p, a, k) == dot(c, e, (k - 1) as nat)
    decreases k
{
    if k == 1 { assert(qsum(b, p, a, 0) == f_zero()); lemma_mul_zero(b[0]); ax_add_zero(f_zero()); }
    else { lemma_qsum_as_dot(b, p, a, c, e, (k - 1) as nat); }
}
//@lemma props=C14
pub proof fn lemma_space_open_equals_time_open(tk: Seq<FS>, sk: Seq<FS>, tp: Seq<FS>, sp: Seq<FS>, alpha: FS, q: Seq<FS>)
    requires key_rel(tk, sk), 1 <= tp.len() <= tk.len(), sp.len() == tp.len(), forall|i: int| 0 <= i < tp.len() ==> sp[i] == tp[tp.len() - 1 - i],
        q.len() == tp.len() - 1, forall|i: int| 0 <= i < q.len() ==> q[i] == horner(tp, alpha, (tp.len() - 1 - i) as nat),      // the quotient of clause streaming.time.open.proof_commits_to_horner_quotient
    ensures
        horner(rev(sp), alpha, sp.len()) == horner(tp, alpha, tp.len()),                                                       // same evaluation (= p(alpha) by lemma_horner_is_eval in units/streaming.rs)
        qsum(sk.subrange(sk.len() - sp.len(), sk.len() as int), rev(sp), alpha, sp.len()) == dot(tk, q, q.len()),              // same proof
{
    let n = tp.len(); let st = sk.subrange(sk.len() - n, sk.len() as int);
    assert(rev(sp) =~= tp);
    // c[m] = st[m+1] = tk[n-2-m],  e[m] = h(m+1) = q[n-2-m]: the reversals of tk[..n-1] and q
    let c = Seq::new((n - 1) as nat, |m: int| st[m + 1]); let e = Seq::new((n - 1) as nat, |m: int| horner(tp, alpha, (m + 1) as nat));
    lemma_qsum_as_dot(st, tp, alpha, c, e, n);
    assert forall|i: int| 0 <= i < n - 1 implies c[i] == tk[n - 2 - i] && e[i] == q[n - 2 - i] by { }
    lemma_dot_rev(tk, q, c, e, (n - 1) as nat);
}

