// LinearCombination arithmetic (data_structures.rs) -- C16.
//@use core ops_gen
//@spec ring
//@typemap /\(F, LCTerm\)/ => (Fr, LCTerm)
//@typemap /Vec<\(F,/ => Vec<(Fr,
//@enum file=poly-commit/src/data_structures.rs name=LCTerm
//@struct file=poly-commit/src/data_structures.rs name=LinearCombination
// assumed: #[derive(Clone)] on LCTerm and on (F, LCTerm) returns an equal value
impl LCTerm { #[verifier::external_body] pub fn clone(&self) -> (r: LCTerm) ensures r == *self { unimplemented!() } }
#[verifier::external_body] pub fn clone_term(x: &(Fr, LCTerm)) -> (r: (Fr, LCTerm)) ensures r == *x { unimplemented!() }

// ---- meaning of a linear combination under an assignment sigma of values to polynomial labels (oracle)
pub open spec fn term_value(t: (Fr, LCTerm), sigma: spec_fn(Seq<char>) -> FS) -> FS {
    match t.1 { LCTerm::One => t.0@, LCTerm::PolyLabel(l) => f_mul(t.0@, sigma(l@)) }
}
pub open spec fn lc_value(ts: Seq<(Fr, LCTerm)>, sigma: spec_fn(Seq<char>) -> FS) -> FS decreases ts.len() {
    if ts.len() == 0 { f_zero() } else { f_add(lc_value(ts.drop_last(), sigma), term_value(ts.last(), sigma)) }
}
pub proof fn lemma_value_concat(a: Seq<(Fr, LCTerm)>, b: Seq<(Fr, LCTerm)>, sigma: spec_fn(Seq<char>) -> FS)
    ensures lc_value(a + b, sigma) == f_add(lc_value(a, sigma), lc_value(b, sigma))
    decreases b.len()
{
    broadcast use ring_axioms;
    if b.len() == 0 { assert(a + b =~= a); assert(lc_value(b, sigma) == f_zero()); }
    else { assert((a + b).drop_last() =~= a + b.drop_last()); assert((a + b).last() == b.last()); lemma_value_concat(a, b.drop_last(), sigma);
           assert(lc_value(a + b, sigma) == f_add(lc_value((a + b).drop_last(), sigma), term_value((a + b).last(), sigma)));
           assert(lc_value(b, sigma) == f_add(lc_value(b.drop_last(), sigma), term_value(b.last(), sigma))); }
}
pub proof fn lemma_value_scaled(b: Seq<(Fr, LCTerm)>, sb: Seq<(Fr, LCTerm)>, c: FS, sigma: spec_fn(Seq<char>) -> FS)
    requires sb.len() == b.len(), forall|i: int| 0 <= i < b.len() ==> sb[i].1 == b[i].1 && sb[i].0@ == f_mul(c, b[i].0@)
    ensures lc_value(sb, sigma) == f_mul(c, lc_value(b, sigma))
    decreases b.len()
{
    broadcast use ring_axioms;
    if b.len() > 0 {
        lemma_value_scaled(b.drop_last(), sb.drop_last(), c, sigma);
        match b.last().1 { LCTerm::One => {}, LCTerm::PolyLabel(l) => {
            assert(f_mul(f_mul(c, b.last().0@), sigma(l@)) == f_mul(c, f_mul(b.last().0@, sigma(l@)))); } }
    } else { lemma_mul_zero(c); }
}
pub proof fn lemma_value_push(a: Seq<(Fr, LCTerm)>, t: (Fr, LCTerm), sigma: spec_fn(Seq<char>) -> FS)
    ensures lc_value(a.push(t), sigma) == f_add(lc_value(a, sigma), term_value(t, sigma))
{ assert(a.push(t).drop_last() =~= a); }

impl LinearCombination {
//@fn id=lc.add_assign_scaled file=poly-commit/src/data_structures.rs scope="impl<'a, F: Field> AddAssign<\(F, &'a LinearCombination<F>\)> for LinearCombination<F>" name=add_assign props=C16
    pub fn add_assign_scaled(&mut self, p: (Fr, &LinearCombination))
    ensures
        forall|sigma: spec_fn(Seq<char>) -> FS| #![trigger lc_value(final(self).terms@, sigma)] lc_value(final(self).terms@, sigma) == f_add(lc_value(old(self).terms@, sigma), f_mul(p.0@, lc_value(p.1.terms@, sigma))),   // name=lc.add_assign_scaled.value props=C16
        final(self).label == old(self).label,
        final(self).terms@.subrange(0, old(self).terms@.len() as int) =~= old(self).terms@,   // name=lc.add_assign_scaled.frame props=C16
//@body
//@destructure p = (coeff, other)
//@rw 1 /(?s)self\.terms\s*\.extend\((.*)\);/ => let mut t__: Vec<(Fr, LCTerm)> = \1.collect();
        proof {
          assert forall|sigma: spec_fn(Seq<char>) -> FS| lc_value(self.terms@ + t__@, sigma) == f_add(lc_value(self.terms@, sigma), f_mul(coeff@, lc_value(other.terms@, sigma))) by {
            lemma_value_concat(self.terms@, t__@, sigma); lemma_value_scaled(other.terms@, t__@, coeff@, sigma);
          }
        }
        self.terms.append(&mut t__);
//@closure |(c, t)| => |q: &(Fr, LCTerm)| -> (r: (Fr, LCTerm)) ensures r.1 == q.1, r.0@ == f_mul(coeff@, q.0@) ;; let (c, t) = q;
//@end

//@fn id=lc.sub_assign_scaled file=poly-commit/src/data_structures.rs scope="impl<'a, F: Field> SubAssign<\(F, &'a LinearCombination<F>\)> for LinearCombination<F>" name=sub_assign props=C16
    pub fn sub_assign_scaled(&mut self, p: (Fr, &LinearCombination))
    ensures
        forall|sigma: spec_fn(Seq<char>) -> FS| #![trigger lc_value(final(self).terms@, sigma)] lc_value(final(self).terms@, sigma) == f_sub(lc_value(old(self).terms@, sigma), f_mul(p.0@, lc_value(p.1.terms@, sigma))),   // name=lc.sub_assign_scaled.value props=C16
        final(self).label == old(self).label,
        final(self).terms@.subrange(0, old(self).terms@.len() as int) =~= old(self).terms@,   // name=lc.sub_assign_scaled.frame props=C16
//@body
//@destructure p = (coeff, other)
//@rw 1 /(?s)self\.terms\s*\.extend\((.*)\);/ => let mut t__: Vec<(Fr, LCTerm)> = \1.collect();
        proof {
          assert forall|sigma: spec_fn(Seq<char>) -> FS| lc_value(self.terms@ + t__@, sigma) == f_sub(lc_value(self.terms@, sigma), f_mul(coeff@, lc_value(other.terms@, sigma))) by {
            lemma_value_concat(self.terms@, t__@, sigma); lemma_value_scaled(other.terms@, t__@, f_neg(coeff@), sigma);
            lemma_neg_mul(coeff@, lc_value(other.terms@, sigma));
          }
        }
        self.terms.append(&mut t__);
//@closure |(c, t)| => |q: &(Fr, LCTerm)| -> (r: (Fr, LCTerm)) ensures r.1 == q.1, r.0@ == f_mul(f_neg(coeff@), q.0@) ;; let (c, t) = q;
//@end

//@fn id=lc.add_assign_lc file=poly-commit/src/data_structures.rs scope="impl<'a, F: Field> AddAssign<&'a LinearCombination<F>> for LinearCombination<F>" name=add_assign props=C16
    pub fn add_assign_lc(&mut self, other: &LinearCombination)
    ensures
        forall|sigma: spec_fn(Seq<char>) -> FS| #![trigger lc_value(final(self).terms@, sigma)] lc_value(final(self).terms@, sigma) == f_add(lc_value(old(self).terms@, sigma), lc_value(other.terms@, sigma)),   // name=lc.add_assign_lc.value props=C16
        final(self).label == old(self).label,
        final(self).terms@.subrange(0, old(self).terms@.len() as int) =~= old(self).terms@,   // name=lc.add_assign_lc.frame props=C16
//@body
//@rw 1 /(?s)self\.terms\.extend\((.*)\.cloned\(\)\);/ => let mut t__: Vec<(Fr, LCTerm)> = \1.map(|x: &(Fr, LCTerm)| -> (r: (Fr, LCTerm)) ensures r == *x { clone_term(x) }).collect();
        proof {
          assert(t__@ =~= other.terms@);
          assert forall|sigma: spec_fn(Seq<char>) -> FS| lc_value(self.terms@ + t__@, sigma) == f_add(lc_value(self.terms@, sigma), lc_value(other.terms@, sigma)) by {
            lemma_value_concat(self.terms@, t__@, sigma);
          }
        }
        self.terms.append(&mut t__);
//@end

//@fn id=lc.sub_assign_lc file=poly-commit/src/data_structures.rs scope="impl<'a, F: Field> SubAssign<&'a LinearCombination<F>> for LinearCombination<F>" name=sub_assign props=C16
    pub fn sub_assign_lc(&mut self, other: &LinearCombination)
    ensures
        forall|sigma: spec_fn(Seq<char>) -> FS| #![trigger lc_value(final(self).terms@, sigma)] lc_value(final(self).terms@, sigma) == f_sub(lc_value(old(self).terms@, sigma), lc_value(other.terms@, sigma)),   // name=lc.sub_assign_lc.value props=C16
        final(self).label == old(self).label,
        final(self).terms@.subrange(0, old(self).terms@.len() as int) =~= old(self).terms@,   // name=lc.sub_assign_lc.frame props=C16
//@body
//@rw 1 /(?s)self\.terms\s*\.extend\((.*)\);/ => let mut t__: Vec<(Fr, LCTerm)> = \1.collect();
        proof {
          assert forall|sigma: spec_fn(Seq<char>) -> FS| lc_value(self.terms@ + t__@, sigma) == f_sub(lc_value(self.terms@, sigma), lc_value(other.terms@, sigma)) by {
            lemma_value_concat(self.terms@, t__@, sigma); lemma_value_scaled(other.terms@, t__@, f_neg(f_one()), sigma);
            lemma_neg_mul(f_one(), lc_value(other.terms@, sigma));
            broadcast use ring_axioms;
          }
        }
        self.terms.append(&mut t__);
//@closure |(c, t)| => |q: &(Fr, LCTerm)| -> (r: (Fr, LCTerm)) ensures r.1 == q.1, r.0@ == f_mul(f_neg(f_one()), q.0@) ;; let (c, t) = q; proof { lemma_neg_mul(f_one(), c@); broadcast use ring_axioms; }
//@end

//@fn id=lc.add_assign_const file=poly-commit/src/data_structures.rs scope="impl<F: Field> AddAssign<F> for LinearCombination<F>" name=add_assign props=C16
    pub fn add_assign_const(&mut self, coeff: Fr)
    ensures
        forall|sigma: spec_fn(Seq<char>) -> FS| #![trigger lc_value(final(self).terms@, sigma)] lc_value(final(self).terms@, sigma) == f_add(lc_value(old(self).terms@, sigma), coeff@),   // name=lc.add_assign_const.value props=C16
        final(self).label == old(self).label,
        final(self).terms@.subrange(0, old(self).terms@.len() as int) =~= old(self).terms@,   // name=lc.add_assign_const.frame props=C16
//@body
//@before /self\.terms\.push/
        proof { assert forall|sigma: spec_fn(Seq<char>) -> FS| lc_value(self.terms@.push((coeff, LCTerm::One)), sigma) == f_add(lc_value(self.terms@, sigma), coeff@) by { lemma_value_push(self.terms@, (coeff, LCTerm::One), sigma); } }
//@end

//@fn id=lc.sub_assign_const file=poly-commit/src/data_structures.rs scope="impl<F: Field> SubAssign<F> for LinearCombination<F>" name=sub_assign props=C16
    pub fn sub_assign_const(&mut self, coeff: Fr)
    ensures
        forall|sigma: spec_fn(Seq<char>) -> FS| #![trigger lc_value(final(self).terms@, sigma)] lc_value(final(self).terms@, sigma) == f_sub(lc_value(old(self).terms@, sigma), coeff@),   // name=lc.sub_assign_const.value props=C16
        final(self).label == old(self).label,
        final(self).terms@.subrange(0, old(self).terms@.len() as int) =~= old(self).terms@,   // name=lc.sub_assign_const.frame props=C16
//@body
//@before /self\.terms\.push/
        proof { assert forall|sigma: spec_fn(Seq<char>) -> FS| lc_value(self.terms@.push((Fr::mk(f_neg(coeff@)), LCTerm::One)), sigma) == f_sub(lc_value(self.terms@, sigma), coeff@) by { lemma_value_push(self.terms@, (Fr::mk(f_neg(coeff@)), LCTerm::One), sigma); } }
//@end

//@fn id=lc.mul_assign file=poly-commit/src/data_structures.rs scope="impl<F: Field> MulAssign<F> for LinearCombination<F>" name=mul_assign props=C16
    pub fn mul_assign(&mut self, coeff: Fr)
    ensures
        forall|sigma: spec_fn(Seq<char>) -> FS| #![trigger lc_value(final(self).terms@, sigma)] lc_value(final(self).terms@, sigma) == f_mul(coeff@, lc_value(old(self).terms@, sigma)),   // name=lc.mul_assign.value props=C16
        final(self).label == old(self).label,
        final(self).terms@.len() == old(self).terms@.len(),
        forall|i: int| 0 <= i < old(self).terms@.len() ==> (#[trigger] final(self).terms@[i]).1 == old(self).terms@[i].1,   // name=lc.mul_assign.labels_unchanged props=C16
//@body
//@rw * /(?s)self\s*\.terms\s*\.iter_mut\(\)\s*\.filter\(\|\((\w+), (\w+)\)\| (.*?)\)\s*\.for_each\(\|\(c, _\)\| ([^;]*)\);/ => let ghost ts0__ = self.terms@; let mut i__: usize = 0;
        while i__ < self.terms.len()
            invariant i__ <= self.terms@.len(), self.terms@.len() == ts0__.len(), self.label == old(self).label, ts0__ == old(self).terms@,
                forall|j: int| 0 <= j < i__ ==> (#[trigger] self.terms@[j]).1 == ts0__[j].1 && self.terms@[j].0@ == f_mul(coeff@, ts0__[j].0@),
                forall|j: int| i__ <= j < ts0__.len() ==> self.terms@[j] == ts0__[j],
            decreases self.terms@.len() - i__
        {
            let (mut c__, t__) = clone_term(&self.terms[i__]);
            let keep__ = { let \1 = &c__; let \2 = &t__; \3 };
            if keep__ { let c = &mut c__; \4; }
            proof { broadcast use ax_mul_comm; }
            self.terms.set(i__, (c__, t__));
            i__ += 1;
        }
        proof {
            assert forall|sigma: spec_fn(Seq<char>) -> FS| lc_value(self.terms@, sigma) == f_mul(coeff@, lc_value(ts0__, sigma)) by { lemma_value_scaled(ts0__, self.terms@, coeff@, sigma); }
        }
//@rw * /self\.terms\.iter_mut\(\)\.for_each\(\|\(c, _\)\| (.*)\);/ => let ghost ts0__ = self.terms@; let mut i__: usize = 0;
        while i__ < self.terms.len()
            invariant i__ <= self.terms@.len(), self.terms@.len() == ts0__.len(), self.label == old(self).label, ts0__ == old(self).terms@,
                forall|j: int| 0 <= j < i__ ==> (#[trigger] self.terms@[j]).1 == ts0__[j].1 && self.terms@[j].0@ == f_mul(coeff@, ts0__[j].0@),
                forall|j: int| i__ <= j < ts0__.len() ==> self.terms@[j] == ts0__[j],
            decreases self.terms@.len() - i__
        {
            let (mut c__, t__) = clone_term(&self.terms[i__]);
            { let c = &mut c__; \1; }
            proof { broadcast use ax_mul_comm; }
            self.terms.set(i__, (c__, t__));
            i__ += 1;
        }
        proof {
            assert forall|sigma: spec_fn(Seq<char>) -> FS| lc_value(self.terms@, sigma) == f_mul(coeff@, lc_value(ts0__, sigma)) by { lemma_value_scaled(ts0__, self.terms@, coeff@, sigma); }
        }
//@end

//@fn id=lc.empty file=poly-commit/src/data_structures.rs scope="impl<F: Field> LinearCombination<F>" name=empty props=C16
    pub fn empty(label: String) -> (r: Self)
    ensures
        r.label == label && r.terms@.len() == 0,   // name=lc.empty.no_terms props=C16
//@body
//@rw 1 /label: label\.into\(\)/ => label: label
//@end
//@fn id=lc.label file=poly-commit/src/data_structures.rs scope="impl<F: Field> LinearCombination<F>" name=label props=C16
    pub fn label(&self) -> (r: &String)
    ensures
        *r == self.label,   // name=lc.label.is_the_label props=C16
//@body
//@end
//@fn id=lc.push file=poly-commit/src/data_structures.rs scope="impl<F: Field> LinearCombination<F>" name=push props=C16
    // (the real function returns `self` as `&mut Self` for chaining; the returned reference is dropped here - stated in DESIGN 3.1 under "what the extraction drops")
    pub fn push(&mut self, term: (Fr, LCTerm))
    ensures
        final(self).terms@ == old(self).terms@.push(term) && final(self).label == old(self).label,   // name=lc.push.appends_the_term props=C16
        forall|sigma: spec_fn(Seq<char>) -> FS| lc_value(final(self).terms@, sigma) == f_add(lc_value(old(self).terms@, sigma), term_value(term, sigma)),   // name=lc.push.value_gains_the_term props=C16
//@body
//@rw 1 /(?s)self\.terms\.push\(term\);\s*self\s*\}/ => self.terms.push(term); proof { assert forall|sigma: spec_fn(Seq<char>) -> FS| lc_value(self.terms@, sigma) == f_add(lc_value(old(self).terms@, sigma), term_value(term, sigma)) by { lemma_value_push(old(self).terms@, term, sigma); } } }
//@end
//@fn id=lc.is_empty file=poly-commit/src/data_structures.rs scope="impl<F: Field> LinearCombination<F>" name=is_empty props=C16
    pub fn is_empty(&self) -> (r: bool)
    ensures
        r == (self.terms@.len() == 0),
//@body
//@end
}
impl LCTerm {
//@fn id=lc.LCTerm.is_one file=poly-commit/src/data_structures.rs scope="impl LCTerm" name=is_one props=C16
    pub fn is_one(&self) -> (r: bool)
    ensures
        r == (*self is One),   // name=lc.LCTerm.is_one.iff props=C16
//@body
//@end
}
