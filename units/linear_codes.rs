// LinearCodePCS (linear_codes/mod.rs): verifier `check`, prover-side `generate_proof`  (C10, C02, C03, C11, C13, C19)
//@use core ops_gen labeled_comm sponge std ser real
//@spec ring vec_spec lc_utils_spec lincode_spec
//@typemap /Self::VerifierKey/ => Params
//@typemap /Self::Proof/ => Vec<LinCodePCProof>
//@typemap /Self::Commitment/ => LinCodePCCommitment
//@typemap /Self::Error/ => Error
//@typemap /\bP::Point\b/ => Pt
//@typemap /::<F>\(/ => (
//@typemap /Vec<F>/ => Vec<Fr>
//@typemap /Path<C>/ => Path
//@typemap /C::InnerDigest/ => Digest
//@typemap /Vec<C::Leaf>/ => Vec<Leaf>
//@typemap /\|_\|/ => |_e|
//@typemap /LinCodePCProofSingle<F, C>/ => LinCodePCProofSingle
//@typemap /&<<C as Config>::LeafHash as CRHScheme>::Parameters/ => &HashParams
//@typemap /&<<C as Config>::TwoToOneHash as TwoToOneCRHScheme>::Parameters/ => &HashParams
//@enum file=poly-commit/src/error.rs name=Error derive=Debug
//@use lincode
//@struct file=poly-commit/src/linear_codes/data_structures.rs name=Metadata
//@struct file=poly-commit/src/linear_codes/data_structures.rs name=LinCodePCCommitment
//@struct file=poly-commit/src/linear_codes/data_structures.rs name=LinCodePCProofSingle
//@struct file=poly-commit/src/linear_codes/data_structures.rs name=LinCodePCProof
#[verifier::external_body] pub fn modulus_bit_size() -> (r: u32) ensures r == MBS(), 0 < r < 0x4000_0000 { unimplemented!() }
//@stub from=lc_utils.rs id=lc_utils.calculate_t
//@stub from=lc_utils.rs id=lc_utils.get_indices_from_sponge
//@stub from=hyrax.rs id=utils.inner_product

pub struct LinearCodePCS;
impl LinearCodePCS {
//@fn id=linear_codes.check file=poly-commit/src/linear_codes/mod.rs scope="impl<L, F, P, C, H> PolynomialCommitment<F, P> for LinearCodePCS<L, F, P, C, H>" name=check props=C10,C02,C03,C11,C13,C17
    fn check<'a>(vk: &Params, commitments: Vec<&'a LabeledCommitment<LinCodePCCommitment>>, point: &'a Pt, values: Vec<Fr>, proof_array: &Vec<LinCodePCProof>, sponge: &mut Sponge, _rng: Option<&mut Rng>) -> (res: Result<bool, Error>)
    requires
        vk.sec <= 0x7fff_ffff,
        forall|i: int| 0 <= i < commitments@.len() ==> (#[trigger] commitments@[i]).commitment.metadata.n_ext_cols > 0,
    ensures
        (res is Ok && res->Ok_0) ==> (forall|i: int| 0 <= i < min(commitments@.len(), values@.len()) ==> i < proof_array@.len()
            && lc_accepts_one(lc_state(old(sponge).st@, vk, commitments@, proof_array@, point_vec_spec(*point), i as nat), vk, &(#[trigger] commitments@[i]).commitment, values@[i]@, &proof_array@[i], point)),   // name=linear_codes.check.accept_implies_relation props=C10,C02,C03,C13
        (res is Ok && res->Ok_0) ==> (forall|i: int| 0 <= i < min(commitments@.len(), values@.len()) ==>
            lc_paths_authentic(lc_state(old(sponge).st@, vk, commitments@, proof_array@, point_vec_spec(*point), i as nat), vk, &(#[trigger] commitments@[i]).commitment, &proof_array@[i])),   // name=linear_codes.check.accept_implies_merkle_paths_valid props=C03,C10 finding=F2
        // (no clause on |opening.v| == n_cols: the length is not checked by the code, but no input could be shown on the real code for which
        //  this alone makes a false claim accepted - a stretched v changes E(v) and the column checks fail; see DESIGN.md, dropped candidate F3)
        (res is Ok && res->Ok_0) ==> final(sponge).st@ == lc_state(old(sponge).st@, vk, commitments@, proof_array@, point_vec_spec(*point), min(commitments@.len(), values@.len())),   // name=linear_codes.check.transcript_schedule props=C11
//@body
//@rw * /proof_array\[i\]/ => *at(proof_array, i)
//@rw * /&proof\.opening\.columns\[transcript_index\]/ => at(&proof.opening.columns, transcript_index)
//@rw * /&proof\.opening\.paths\[j\]/ => at(&proof.opening.paths, j)
//@rw * /\bw\[\*matrix_index\]/ => at_fr(&w, *matrix_index)
//@rw * /w_well_formedness\[\*matrix_index\]/ => at_fr(&w_well_formedness, *matrix_index)
//@rw * /(\.map_err\(\|_\| Error::HashingError\)\s*)\.unwrap\(\)/ => \1.unwrap_abort()
//@closure |c| => |c: &Vec<Fr>| -> (lf: Leaf) ensures lf == col_hash(fviews(c@))
//@closure |a, b, c| -> Result<(), Error> => |a: &Vec<Fr>, b: &Vec<Fr>, c: Fr| -> (rr: Result<(), Error>) ensures (rr is Ok) == (ip(fviews(a@), fviews(b@)) == c@)
//@loop 1 kw=for name=it
            invariant it.index@ <= min(commitments@.len(), values@.len()), vk.sec <= 0x7fff_ffff,
                *leaf_hash_param == vk.lp, *two_to_one_hash_param == vk.tp,
                forall|ii: int| 0 <= ii < commitments@.len() ==> (#[trigger] commitments@[ii]).commitment.metadata.n_ext_cols > 0,
                sponge.st@ == lc_state(old(sponge).st@, vk, commitments@, proof_array@, point_vec_spec(*point), i__c as nat),
                forall|k: int| 0 <= k < i__c ==> k < proof_array@.len()
                    && lc_paths_authentic(lc_state(old(sponge).st@, vk, commitments@, proof_array@, point_vec_spec(*point), k as nat), vk, &commitments@[k].commitment, &proof_array@[k])
                    && lc_accepts_one(lc_state(old(sponge).st@, vk, commitments@, proof_array@, point_vec_spec(*point), k as nat), vk, &(#[trigger] commitments@[k]).commitment, values@[k]@, &proof_array@[k], point),
//@loop 2 kw=for name=it2
                invariant it2.index@ <= t, indices@.len() == t, *root == commitment.root,
                    col_hashes@.len() == proof.opening.columns@.len(),
                    forall|ii: int| 0 <= ii < col_hashes@.len() ==> (#[trigger] col_hashes@[ii]) == col_hash(fviews(proof.opening.columns@[ii]@)),
                    forall|jj: int| 0 <= jj < j__c ==> jj < proof.opening.paths@.len() && (#[trigger] proof.opening.paths@[jj]).leaf_index == indices@[jj]
                        && path_valid(proof.opening.paths@[jj], *root, col_hash(fviews(proof.opening.columns@[jj]@))),
//@loop 3 kw=for name=it3
                    invariant it3.index@ <= t, indices@.len() == t,
                        forall|aa: &Vec<Fr>, bb: &Vec<Fr>, cc: Fr| call_requires(check_inner_product, (aa, bb, cc)),
                        forall|aa: &Vec<Fr>, bb: &Vec<Fr>, cc: Fr, rr: Result<(), Error>| call_ensures(check_inner_product, (aa, bb, cc), rr) ==> ((rr is Ok) == (ip(fviews(aa@), fviews(bb@)) == cc@)),
                        forall|jj: int| 0 <= jj < transcript_index__c ==> jj < proof.opening.columns@.len() && (#[trigger] indices@[jj]) < w@.len() && indices@[jj] < w_well_formedness@.len()
                            && ip(fviews(r@), fviews(proof.opening.columns@[jj]@)) == w_well_formedness@[indices@[jj] as int]@
                            && ip(fviews(b@), fviews(proof.opening.columns@[jj]@)) == w@[indices@[jj] as int]@,
//@loop 4 kw=for name=it4
                    invariant it4.index@ <= t, indices@.len() == t,
                        forall|aa: &Vec<Fr>, bb: &Vec<Fr>, cc: Fr| call_requires(check_inner_product, (aa, bb, cc)),
                        forall|aa: &Vec<Fr>, bb: &Vec<Fr>, cc: Fr, rr: Result<(), Error>| call_ensures(check_inner_product, (aa, bb, cc), rr) ==> ((rr is Ok) == (ip(fviews(aa@), fviews(bb@)) == cc@)),
                        forall|jj: int| 0 <= jj < transcript_index__c ==> jj < proof.opening.columns@.len() && (#[trigger] indices@[jj]) < w@.len()
                            && ip(fviews(b@), fviews(proof.opening.columns@[jj]@)) == w@[indices@[jj] as int]@,
//@before /let check_inner_product =/
            let ghost n2 = j__c;
            proof { assert(n2 == min(col_hashes@.len(), indices@.len())); assert(col_hashes@.len() == proof.opening.columns@.len()); }
//@after /let w_well_formedness = L::encode\(well_formedness, vk\)\?;/
                proof {
                    assert(fviews(r@) =~= sqn_seq(lc_pre_wf(s_i, commitment), n_rows as nat));
                    assert(*well_formedness == proof.well_formedness->Some_0);
                }
//@after /for \(transcript_index, matrix_index\) in indices\.iter\(\)\.enumerate\(\) \{/ #1
                proof {
                    assert forall|jx: int| 0 <= jx < t implies
                        ip(sqn_seq(lc_pre_wf(s_i, commitment), n_rows as nat), fviews(proof.opening.columns@[jx]@))
                          == encode_spec(fviews(proof.well_formedness->Some_0@), vk)[(#[trigger] indices@[jx]) as int] by {
                        assert(fviews(w_well_formedness@)[indices@[jx] as int] == w_well_formedness@[indices@[jx] as int]@);
                    }
                }
//@before /let indices = get_indices_from_sponge/
            let ghost s_pre = sponge.st@;
//@after /let indices = get_indices_from_sponge/
            let ghost s_i = lc_state(old(sponge).st@, vk, commitments@, proof_array@, point_vec_spec(*point), i as nat);
            proof {
                assert(fviews(point_vec@) == point_vec_spec(*point));
                assert(s_pre == lc_pre_indices(s_i, vk, commitment, proof, point_vec_spec(*point))) by { reveal(lc_pre_indices); }
                lemma_lc_indices(s_i, vk, commitment, proof, point_vec_spec(*point), s_pre, sponge.st@, indices@, t as int);
            }
//@loopend 1
            proof {
                assert(ip(fviews(proof.opening.v@), fviews(a@)) == value@);
                if t > 0 {
                    assert(indices@[t - 1] < w@.len());                     // loops 3/4 ran t times: t columns are present
                    assert(proof.opening.columns@.len() >= t);
                    assert(n2 == t);                                        // hence loop 2 ran t times as well
                    assert(proof.opening.paths@[t - 1].leaf_index == indices@[t - 1]);
                }
                assert(fviews(w@) == encode_spec(fviews(proof.opening.v@), vk));
                lemma_lc_accepts_intro(s_i, vk, commitment, value@, proof, point, indices@, fviews(w@), fviews(a@), fviews(b@));
                lemma_lc_paths_intro(s_i, vk, commitment, proof);
            }
//@end
}
