use vstd::prelude::*;
macro_rules! assert_eq { ($a:expr, $b:expr $(, $($rest:tt)*)?) => { rt_assert($a == $b) } }
macro_rules! start_timer { ($($t:tt)*) => { () } }
macro_rules! end_timer { ($($t:tt)*) => { () } }
use std::ops::{Sub, SubAssign, Mul, Add, AddAssign, MulAssign};
verus! {

// ===== abstract algebra (spec level) =====
#[verifier::external_body] pub struct FS { _x: u8 }   // scalar field element
#[verifier::external_body] pub struct AS { _x: u8 }   // G1 element
#[verifier::external_body] pub struct BS { _x: u8 }   // G2 element
#[verifier::external_body] pub struct TS { _x: u8 }   // GT element
pub uninterp spec fn a_add(a: AS, b: AS) -> AS;
pub uninterp spec fn a_neg(a: AS) -> AS;
pub uninterp spec fn a_scale(a: AS, s: FS) -> AS;
pub uninterp spec fn b_add(a: BS, b: BS) -> BS;
pub uninterp spec fn b_neg(a: BS) -> BS;
pub uninterp spec fn b_scale(a: BS, s: FS) -> BS;
pub uninterp spec fn pair(a: AS, b: BS) -> TS;
pub open spec fn a_sub(a: AS, b: AS) -> AS { a_add(a, a_neg(b)) }
pub open spec fn b_sub(a: BS, b: BS) -> BS { b_add(a, b_neg(b)) }

// ===== exec shim types =====
#[derive(Clone, Copy)] pub struct Fr { pub v: Ghost<FS> }
#[derive(Clone, Copy)] pub struct G1 { pub v: Ghost<AS> }
#[derive(Clone, Copy)] pub struct G1Affine { pub v: Ghost<AS> }
#[derive(Clone, Copy)] pub struct G2 { pub v: Ghost<BS> }
#[derive(Clone, Copy)] pub struct G2Affine { pub v: Ghost<BS> }
#[derive(Clone, Copy)] pub struct GT { pub v: Ghost<TS> }
impl View for Fr { type V = FS; open spec fn view(&self) -> FS { self.v@ } }
impl View for G1 { type V = AS; open spec fn view(&self) -> AS { self.v@ } }
impl View for G1Affine { type V = AS; open spec fn view(&self) -> AS { self.v@ } }
impl View for G2 { type V = BS; open spec fn view(&self) -> BS { self.v@ } }
impl View for G2Affine { type V = BS; open spec fn view(&self) -> BS { self.v@ } }
impl View for GT { type V = TS; open spec fn view(&self) -> TS { self.v@ } }
pub open spec fn mk_g1(a: AS) -> G1 { G1 { v: Ghost(a) } }
pub open spec fn mk_g2(a: BS) -> G2 { G2 { v: Ghost(a) } }

impl G1Affine {
    #[verifier::external_body]
    pub fn into_group(self) -> (r: G1) ensures r@ == self@ { unimplemented!() }
    #[verifier::external_body]
    pub fn mul(self, s: Fr) -> (r: G1) ensures r@ == a_scale(self@, s@) { unimplemented!() }
}
impl G2Affine {
    #[verifier::external_body]
    pub fn into_group(self) -> (r: G2) ensures r@ == self@ { unimplemented!() }
    #[verifier::external_body]
    pub fn mul(self, s: Fr) -> (r: G2) ensures r@ == b_scale(self@, s@) { unimplemented!() }
}
impl vstd::std_specs::ops::SubSpecImpl<&G1> for G1 {
    open spec fn obeys_sub_spec() -> bool { true }
    open spec fn sub_req(self, rhs: &G1) -> bool { true }
    open spec fn sub_spec(self, rhs: &G1) -> G1 { mk_g1(a_sub(self@, rhs@)) }
}
impl Sub<&G1> for G1 { type Output = G1; #[verifier::external_body] fn sub(self, rhs: &G1) -> G1 { unimplemented!() } }
impl vstd::std_specs::ops::SubSpecImpl<&G2> for G2 {
    open spec fn obeys_sub_spec() -> bool { true }
    open spec fn sub_req(self, rhs: &G2) -> bool { true }
    open spec fn sub_spec(self, rhs: &G2) -> G2 { mk_g2(b_sub(self@, rhs@)) }
}
impl Sub<&G2> for G2 { type Output = G2; #[verifier::external_body] fn sub(self, rhs: &G2) -> G2 { unimplemented!() } }


impl vstd::std_specs::ops::SubSpecImpl<G1> for G1 {
    open spec fn obeys_sub_spec() -> bool { true }
    open spec fn sub_req(self, rhs: G1) -> bool { true }
    open spec fn sub_spec(self, rhs: G1) -> G1 { mk_g1(a_sub(self@, rhs@)) }
}
impl Sub<G1> for G1 { type Output = G1; #[verifier::external_body] fn sub(self, rhs: G1) -> G1 { unimplemented!() } }
impl vstd::std_specs::ops::SubSpecImpl<G2> for G2 {
    open spec fn obeys_sub_spec() -> bool { true }
    open spec fn sub_req(self, rhs: G2) -> bool { true }
    open spec fn sub_spec(self, rhs: G2) -> G2 { mk_g2(b_sub(self@, rhs@)) }
}
impl Sub<G2> for G2 { type Output = G2; #[verifier::external_body] fn sub(self, rhs: G2) -> G2 { unimplemented!() } }
impl vstd::std_specs::ops::SubAssignSpecImpl<&G1> for G1 {
    open spec fn obeys_sub_assign_spec() -> bool { true }
    open spec fn sub_assign_req(&self, rhs: &G1) -> bool { true }
    open spec fn sub_assign_spec(&self, rhs: &G1) -> &G1 { &mk_g1(a_sub(self@, rhs@)) }
}
impl SubAssign<&G1> for G1 { #[verifier::external_body] fn sub_assign(&mut self, rhs: &G1) { unimplemented!() } }
impl vstd::std_specs::ops::SubAssignSpecImpl<G1> for G1 {
    open spec fn obeys_sub_assign_spec() -> bool { true }
    open spec fn sub_assign_req(&self, rhs: G1) -> bool { true }
    open spec fn sub_assign_spec(&self, rhs: G1) -> &G1 { &mk_g1(a_sub(self@, rhs@)) }
}
impl SubAssign<G1> for G1 { #[verifier::external_body] fn sub_assign(&mut self, rhs: G1) { unimplemented!() } }
pub trait IntoG1 { spec fn g1v(&self) -> AS; }
impl IntoG1 for G1 { open spec fn g1v(&self) -> AS { self@ } }
impl IntoG1 for G1Affine { open spec fn g1v(&self) -> AS { self@ } }
pub trait IntoG2 { spec fn g2v(&self) -> BS; }
impl IntoG2 for G2 { open spec fn g2v(&self) -> BS { self@ } }
impl IntoG2 for G2Affine { open spec fn g2v(&self) -> BS { self@ } }

pub struct E;
impl E {
    #[verifier::external_body]
    pub fn pairing<A: IntoG1, B: IntoG2>(a: A, b: B) -> (r: GT) ensures r@ == pair(a.g1v(), b.g2v()) { unimplemented!() }
}
impl vstd::std_specs::cmp::PartialEqSpecImpl for GT {
    open spec fn obeys_eq_spec() -> bool { true }
    open spec fn eq_spec(&self, o: &GT) -> bool { self@ == o@ }
}
impl PartialEq for GT {
    #[verifier::external_body]
    fn eq(&self, o: &GT) -> (r: bool) { unimplemented!() }
}


pub uninterp spec fn f_add(a: FS, b: FS) -> FS;
pub uninterp spec fn f_mul(a: FS, b: FS) -> FS;
pub uninterp spec fn f_zero() -> FS;
pub uninterp spec fn a_zero() -> AS;
pub open spec fn mk_fr(a: FS) -> Fr { Fr { v: Ghost(a) } }
impl Fr { #[verifier::external_body] pub fn zero() -> (r: Fr) ensures r@ == f_zero() { unimplemented!() } }
impl G1 { #[verifier::external_body] pub fn zero() -> (r: G1) ensures r@ == a_zero() { unimplemented!() } 
          #[verifier::external_body] pub fn mul(self, s: Fr) -> (r: G1) ensures r@ == a_scale(self@, s@) { unimplemented!() } }
impl vstd::std_specs::ops::MulSpecImpl<Fr> for Fr {
    open spec fn obeys_mul_spec() -> bool { true }
    open spec fn mul_req(self, rhs: Fr) -> bool { true }
    open spec fn mul_spec(self, rhs: Fr) -> Fr { mk_fr(f_mul(self@, rhs@)) }
}
impl Mul<Fr> for Fr { type Output = Fr; #[verifier::external_body] fn mul(self, rhs: Fr) -> Fr { unimplemented!() } }
impl vstd::std_specs::ops::MulSpecImpl<&Fr> for Fr {
    open spec fn obeys_mul_spec() -> bool { true }
    open spec fn mul_req(self, rhs: &Fr) -> bool { true }
    open spec fn mul_spec(self, rhs: &Fr) -> Fr { mk_fr(f_mul(self@, rhs@)) }
}
impl Mul<&Fr> for Fr { type Output = Fr; #[verifier::external_body] fn mul(self, rhs: &Fr) -> Fr { unimplemented!() } }
impl vstd::std_specs::ops::AddAssignSpecImpl<Fr> for Fr {
    open spec fn obeys_add_assign_spec() -> bool { true }
    open spec fn add_assign_req(&self, rhs: Fr) -> bool { true }
    open spec fn add_assign_spec(&self, rhs: Fr) -> &Fr { &mk_fr(f_add(self@, rhs@)) }
}
impl AddAssign<Fr> for Fr { #[verifier::external_body] fn add_assign(&mut self, rhs: Fr) { unimplemented!() } }
impl vstd::std_specs::ops::AddAssignSpecImpl<&Fr> for Fr {
    open spec fn obeys_add_assign_spec() -> bool { true }
    open spec fn add_assign_req(&self, rhs: &Fr) -> bool { true }
    open spec fn add_assign_spec(&self, rhs: &Fr) -> &Fr { &mk_fr(f_add(self@, rhs@)) }
}
impl AddAssign<&Fr> for Fr { #[verifier::external_body] fn add_assign(&mut self, rhs: &Fr) { unimplemented!() } }
impl vstd::std_specs::ops::AddAssignSpecImpl<G1> for G1 {
    open spec fn obeys_add_assign_spec() -> bool { true }
    open spec fn add_assign_req(&self, rhs: G1) -> bool { true }
    open spec fn add_assign_spec(&self, rhs: G1) -> &G1 { &mk_g1(a_add(self@, rhs@)) }
}
impl AddAssign<G1> for G1 { #[verifier::external_body] fn add_assign(&mut self, rhs: G1) { unimplemented!() } }
impl vstd::std_specs::ops::AddAssignSpecImpl<&G1> for G1 {
    open spec fn obeys_add_assign_spec() -> bool { true }
    open spec fn add_assign_req(&self, rhs: &G1) -> bool { true }
    open spec fn add_assign_spec(&self, rhs: &G1) -> &G1 { &mk_g1(a_add(self@, rhs@)) }
}
impl AddAssign<&G1> for G1 { #[verifier::external_body] fn add_assign(&mut self, rhs: &G1) { unimplemented!() } }
impl vstd::std_specs::ops::MulAssignSpecImpl<Fr> for G1 {
    open spec fn obeys_mul_assign_spec() -> bool { true }
    open spec fn mul_assign_req(&self, rhs: Fr) -> bool { true }
    open spec fn mul_assign_spec(&self, rhs: Fr) -> &G1 { &mk_g1(a_scale(self@, rhs@)) }
}
impl MulAssign<Fr> for G1 { #[verifier::external_body] fn mul_assign(&mut self, rhs: Fr) { unimplemented!() } }
impl vstd::std_specs::ops::MulAssignSpecImpl<&Fr> for G1 {
    open spec fn obeys_mul_assign_spec() -> bool { true }
    open spec fn mul_assign_req(&self, rhs: &Fr) -> bool { true }
    open spec fn mul_assign_spec(&self, rhs: &Fr) -> &G1 { &mk_g1(a_scale(self@, rhs@)) }
}
impl MulAssign<&Fr> for G1 { #[verifier::external_body] fn mul_assign(&mut self, rhs: &Fr) { unimplemented!() } }

pub enum Error { UnsupportedDegreeBound(usize), Other }
pub struct KzgCommitment(pub G1Affine);
pub struct Commitment { pub comm: KzgCommitment, pub shifted_comm: Option<KzgCommitment> }
pub struct LabeledCommitment { pub commitment: Commitment, pub degree_bound: Option<usize> }
impl LabeledCommitment {
    pub fn degree_bound(&self) -> (r: Option<usize>) ensures r == self.degree_bound { self.degree_bound }
    pub fn commitment(&self) -> (r: &Commitment) ensures *r == self.commitment { &self.commitment }
}
pub struct VerifierKey { pub shifts: Ghost<Map<usize, AS>> }
impl VerifierKey {
    #[verifier::external_body]
    pub fn get_shift_power(&self, bound: usize) -> (r: Option<G1Affine>)
        ensures (r is Some) == self.shifts@.dom().contains(bound), r is Some ==> r->Some_0@ == self.shifts@[bound]
    { unimplemented!() }
}
// deterministic sponge: the n-th squeeze from a given state is a function of (state id, n)
pub struct Sponge { pub id: Ghost<int>, pub n: Ghost<nat> }
pub uninterp spec fn sq(id: int, n: nat) -> FS;
pub struct ChallengeSize;
pub const CHALLENGE_SIZE: ChallengeSize = ChallengeSize;
impl Sponge {
    #[verifier::external_body]
    pub fn squeeze_field_elements_with_sizes(&mut self, sizes: &[ChallengeSize; 1]) -> (r: Vec<Fr>)
        ensures r.len() == 1, r[0]@ == sq(old(self).id@, old(self).n@), final(self).id == old(self).id, final(self).n@ == old(self).n@ + 1
    { unimplemented!() }
}
#[verifier::external_body] pub fn rt_assert(c: bool) ensures c { if !c { panic!() } }

// ---- spec of the accumulation (transcribed from Marlin, independent of the code)
pub open spec fn nsq(cs: Seq<LabeledCommitment>, k: nat) -> nat decreases k {
    if k == 0 { 0 } else { nsq(cs, (k-1) as nat) + 1 + (if cs[k-1].degree_bound is Some { 1nat } else { 0nat }) }
}
pub open spec fn acc_c(cs: Seq<LabeledCommitment>, vs: Seq<Fr>, sh: Map<usize, AS>, id: int, n0: nat, k: nat) -> AS decreases k {
    if k == 0 { a_zero() } else {
        let j = (k - 1) as nat; let base = n0 + nsq(cs, j);
        let c0 = a_add(acc_c(cs, vs, sh, id, n0, j), a_scale(cs[j as int].commitment.comm.0@, sq(id, base)));
        match cs[j as int].degree_bound {
            Some(d) => a_add(c0, a_scale(a_sub(cs[j as int].commitment.shifted_comm->Some_0.0@, a_scale(sh[d], vs[j as int]@)), sq(id, base + 1))),
            None => c0,
        }
    }
}
pub open spec fn acc_v(cs: Seq<LabeledCommitment>, vs: Seq<Fr>, id: int, n0: nat, k: nat) -> FS decreases k {
    if k == 0 { f_zero() } else {
        let j = (k - 1) as nat;
        f_add(acc_v(cs, vs, id, n0, j), f_mul(vs[j as int]@, sq(id, n0 + nsq(cs, j))))
    }
}

    fn accumulate_commitments_and_values<'a>(
        commitments: &'a Vec<LabeledCommitment>,
        values: Vec<Fr>,
        sponge: &mut Sponge,
        vk: Option<&VerifierKey>,
    ) -> (res: Result<(G1, Fr), Error>)
      requires commitments.len() == values.len(), vk is Some,
      ensures
        res is Ok ==> res->Ok_0.0@ == acc_c(commitments@, values@, vk->Some_0.shifts@, old(sponge).id@, old(sponge).n@, commitments.len() as nat),
        res is Ok ==> res->Ok_0.1@ == acc_v(commitments@, values@, old(sponge).id@, old(sponge).n@, commitments.len() as nat),
        res is Ok ==> final(sponge).n@ == old(sponge).n@ + nsq(commitments@, commitments.len() as nat),
        res is Ok ==> forall|j: int| 0 <= j < commitments.len() ==> (commitments[j].degree_bound is Some ==> vk->Some_0.shifts@.dom().contains(commitments[j].degree_bound->Some_0)),
    {
        let acc_time = start_timer!(|| "Accumulating commitments and values");
        let mut combined_comm = G1::zero();
        let mut combined_value = Fr::zero();
        for (labeled_commitment, value) in it: commitments.into_iter().zip(values) 
          invariant
            it.index@ <= commitments.len(), commitments.len() == values.len(), vk is Some,
            sponge.id == old(sponge).id, sponge.n@ == old(sponge).n@ + nsq(commitments@, it.index@ as nat),
            combined_comm@ == acc_c(commitments@, values@, vk->Some_0.shifts@, old(sponge).id@, old(sponge).n@, it.index@ as nat),
            combined_value@ == acc_v(commitments@, values@, old(sponge).id@, old(sponge).n@, it.index@ as nat),
            forall|j: int| 0 <= j < it.index@ ==> (commitments[j].degree_bound is Some ==> vk->Some_0.shifts@.dom().contains(commitments[j].degree_bound->Some_0)),
        {
            let degree_bound = labeled_commitment.degree_bound();
            let commitment = labeled_commitment.commitment();
            assert_eq!(degree_bound.is_some(), commitment.shifted_comm.is_some());

            let challenge_i = sponge.squeeze_field_elements_with_sizes(&[CHALLENGE_SIZE])[0];

            combined_comm += &commitment.comm.0.mul(challenge_i);
            combined_value += &(value * &challenge_i);

            if let Some(degree_bound) = degree_bound {
                let challenge_i_1: Fr =
                    sponge.squeeze_field_elements_with_sizes(&[CHALLENGE_SIZE])[0];

                let shifted_comm = commitment.shifted_comm.as_ref().unwrap().0.into_group();

                let shift_power = vk
                    .unwrap()
                    .get_shift_power(degree_bound)
                    .ok_or(Error::UnsupportedDegreeBound(degree_bound))?;

                let mut adjusted_comm = shifted_comm - &shift_power.mul(value);

                adjusted_comm *= challenge_i_1;
                combined_comm += &adjusted_comm;
            }
        }

        end_timer!(acc_time);
        Ok((combined_comm, combined_value))
    }
} // verus!
fn main() {}
