use vstd::prelude::*;
verus! {
#[verifier::external_body] pub struct FS { _x: u8 }
#[verifier::external_body] pub struct AS { _x: u8 }
pub uninterp spec fn f_add(a: FS, b: FS) -> FS;
pub uninterp spec fn f_mul(a: FS, b: FS) -> FS;
pub uninterp spec fn f_zero() -> FS;
pub uninterp spec fn f_one() -> FS;
pub uninterp spec fn a_add(a: AS, b: AS) -> AS;
pub uninterp spec fn a_zero() -> AS;
pub uninterp spec fn a_scale(a: AS, s: FS) -> AS;

pub broadcast axiom fn ax_f_add_comm(a: FS, b: FS) ensures #[trigger] f_add(a, b) == f_add(b, a);
pub broadcast axiom fn ax_f_add_zero(a: FS) ensures #[trigger] f_add(a, f_zero()) == a;
pub broadcast axiom fn ax_f_mul_one(a: FS) ensures #[trigger] f_mul(a, f_one()) == a;
pub broadcast axiom fn ax_f_mul_comm(a: FS, b: FS) ensures #[trigger] f_mul(a, b) == f_mul(b, a);
pub broadcast axiom fn ax_f_mul_assoc(a: FS, b: FS, c: FS) ensures #[trigger] f_mul(f_mul(a, b), c) == f_mul(a, f_mul(b, c));
pub broadcast axiom fn ax_a_add_zero(a: AS) ensures #[trigger] a_add(a, a_zero()) == a;
pub broadcast axiom fn ax_a_add_comm(a: AS, b: AS) ensures #[trigger] a_add(a, b) == a_add(b, a);
pub broadcast axiom fn ax_scale_add(g: AS, s: FS, t: FS) ensures #[trigger] a_scale(g, f_add(s, t)) == a_add(a_scale(g, s), a_scale(g, t));
pub broadcast axiom fn ax_scale_mul(g: AS, s: FS, t: FS) ensures #[trigger] a_scale(a_scale(g, s), t) == a_scale(g, f_mul(s, t));
pub broadcast axiom fn ax_scale_zero(g: AS) ensures #[trigger] a_scale(g, f_zero()) == a_zero();

pub open spec fn f_pow(b: FS, n: nat) -> FS decreases n { if n == 0 { f_one() } else { f_mul(f_pow(b, (n - 1) as nat), b) } }
// sum_{i<n} c[i] * x^i
pub open spec fn peval(c: Seq<FS>, x: FS, n: nat) -> FS decreases n {
    if n == 0 { f_zero() } else { f_add(peval(c, x, (n - 1) as nat), f_mul(c[n - 1], f_pow(x, (n - 1) as nat))) }
}
// sum_{i<n} s[i] * bases[i]
pub open spec fn msm(bases: Seq<AS>, s: Seq<FS>, n: nat) -> AS decreases n {
    if n == 0 { a_zero() } else { a_add(msm(bases, s, (n - 1) as nat), a_scale(bases[n - 1], s[n - 1])) }
}
pub open spec fn srs_ok(powers: Seq<AS>, g: AS, beta: FS) -> bool {
    forall|i: int| 0 <= i < powers.len() ==> #[trigger] powers[i] == a_scale(g, f_pow(beta, i as nat))
}
proof fn lemma_msm_srs(powers: Seq<AS>, g: AS, beta: FS, c: Seq<FS>, n: nat)
    requires srs_ok(powers, g, beta), n <= powers.len(), n <= c.len()
    ensures msm(powers, c, n) == a_scale(g, peval(c, beta, n))
    decreases n
{
    broadcast use ax_scale_add, ax_scale_mul, ax_scale_zero, ax_f_mul_comm;
    if n > 0 {
        lemma_msm_srs(powers, g, beta, c, (n - 1) as nat);
        assert(powers[n - 1] == a_scale(g, f_pow(beta, (n - 1) as nat)));
    }
}
}
fn main() {}
