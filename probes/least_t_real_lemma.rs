use vstd::prelude::*;
verus! {
pub uninterp spec fn log2(x: real) -> real;
pub uninterp spec fn rpow(x: real, t: nat) -> real;
pub broadcast axiom fn ax_log_mono(a: real, b: real)
    requires 0real < a, 0real < b
    ensures (a <= b) == (#[trigger] log2(a) <= #[trigger] log2(b));
pub broadcast axiom fn ax_log_pow(x: real, t: nat)
    requires 0real < x
    ensures #[trigger] log2(rpow(x, t)) == (t as real) * log2(x), rpow(x, t) > 0real;
pub broadcast axiom fn ax_log_half(a: real)
    requires 0real < a
    ensures #[trigger] log2(a / 2real) == log2(a) - 1real;

// soundness bound holds at t  <=>  t >= (log2(R) - 1) / log2(x)
proof fn bound_iff(x: real, r_: real, t: nat)
    requires 0real < x < 1real, 0real < r_, log2(x) < 0real
    ensures (2real * rpow(x, t) <= r_) == ((t as real) >= (log2(r_) - 1real) / log2(x))
{
    broadcast use ax_log_mono, ax_log_pow, ax_log_half;
    let p = rpow(x, t);
    ax_log_pow(x, t);
    assert(p > 0real);
    assert((2real * p <= r_) == (p <= r_ / 2real)) by (nonlinear_arith) requires true;
    assert((p <= r_ / 2real) == (log2(p) <= log2(r_ / 2real)));
    assert(log2(p) == (t as real) * log2(x));
    assert(log2(r_ / 2real) == log2(r_) - 1real);
    let l = log2(x); let q = log2(r_) - 1real; let tr = t as real;
    assert((tr * l <= q) == (tr >= q / l)) by (nonlinear_arith) requires l < 0real;
}
}
fn main() {}
