use vstd::prelude::*;
use std::ops::{Sub, SubAssign, Mul, Add, AddAssign};
verus! {

// ===== abstract algebra (spec level) =====
#[verifier::external_body] pub struct FS { _x: u8 }   // scalar field element
#[verifier::external_body] pub struct AS { _x: u8 }   // G1 element
#[verifier::external_body] pub struct BS { _x: u8 }   // G2 element
#[verifier::external_body] pub struct TS { _x: u8 }   // GT element
pub uninterp spec fn a_add(a: AS, b: AS) -> AS;
pub uninterp spec fn a_neg(a: AS) -> AS;
pub uninterp spec fn a_scale(a: AS, s: FS) -> AS;
pub uninterp spec fn b_add(a: BS, b: BS) -> BS;
pub uninterp spec fn b_neg(a: BS) -> BS;
pub uninterp spec fn b_scale(a: BS, s: FS) -> BS;
pub uninterp spec fn pair(a: AS, b: BS) -> TS;
pub open spec fn a_sub(a: AS, b: AS) -> AS { a_add(a, a_neg(b)) }
pub open spec fn b_sub(a: BS, b: BS) -> BS { b_add(a, b_neg(b)) }

// ===== exec shim types =====
#[verifier::external_body] #[derive(Clone, Copy)] pub struct Fr { _x: u8 }
#[verifier::external_body] #[derive(Clone, Copy)] pub struct G1 { _x: u8 }
#[verifier::external_body] #[derive(Clone, Copy)] pub struct G1Affine { _x: u8 }
#[verifier::external_body] #[derive(Clone, Copy)] pub struct G2 { _x: u8 }
#[verifier::external_body] #[derive(Clone, Copy)] pub struct G2Affine { _x: u8 }
#[verifier::external_body] #[derive(Clone, Copy)] pub struct GT { _x: u8 }
impl View for Fr { type V = FS; uninterp spec fn view(&self) -> FS; }
impl View for G1 { type V = AS; uninterp spec fn view(&self) -> AS; }
impl View for G1Affine { type V = AS; uninterp spec fn view(&self) -> AS; }
impl View for G2 { type V = BS; uninterp spec fn view(&self) -> BS; }
impl View for G2Affine { type V = BS; uninterp spec fn view(&self) -> BS; }
impl View for GT { type V = TS; uninterp spec fn view(&self) -> TS; }
pub uninterp spec fn mk_g1(a: AS) -> G1;
pub uninterp spec fn mk_g2(a: BS) -> G2;
pub broadcast axiom fn ax_mk_g1(a: AS) ensures #[trigger] mk_g1(a)@ == a;
pub broadcast axiom fn ax_mk_g2(a: BS) ensures #[trigger] mk_g2(a)@ == a;

impl G1Affine {
    #[verifier::external_body]
    pub fn into_group(self) -> (r: G1) ensures r@ == self@ { unimplemented!() }
    #[verifier::external_body]
    pub fn mul(self, s: Fr) -> (r: G1) ensures r@ == a_scale(self@, s@) { unimplemented!() }
}
impl G2Affine {
    #[verifier::external_body]
    pub fn into_group(self) -> (r: G2) ensures r@ == self@ { unimplemented!() }
    #[verifier::external_body]
    pub fn mul(self, s: Fr) -> (r: G2) ensures r@ == b_scale(self@, s@) { unimplemented!() }
}
impl vstd::std_specs::ops::SubSpecImpl<&G1> for G1 {
    open spec fn obeys_sub_spec() -> bool { true }
    open spec fn sub_req(self, rhs: &G1) -> bool { true }
    open spec fn sub_spec(self, rhs: &G1) -> G1 { mk_g1(a_sub(self@, rhs@)) }
}
impl Sub<&G1> for G1 { type Output = G1; #[verifier::external_body] fn sub(self, rhs: &G1) -> G1 { unimplemented!() } }
impl vstd::std_specs::ops::SubSpecImpl<&G2> for G2 {
    open spec fn obeys_sub_spec() -> bool { true }
    open spec fn sub_req(self, rhs: &G2) -> bool { true }
    open spec fn sub_spec(self, rhs: &G2) -> G2 { mk_g2(b_sub(self@, rhs@)) }
}
impl Sub<&G2> for G2 { type Output = G2; #[verifier::external_body] fn sub(self, rhs: &G2) -> G2 { unimplemented!() } }


impl vstd::std_specs::ops::SubSpecImpl<G1> for G1 {
    open spec fn obeys_sub_spec() -> bool { true }
    open spec fn sub_req(self, rhs: G1) -> bool { true }
    open spec fn sub_spec(self, rhs: G1) -> G1 { mk_g1(a_sub(self@, rhs@)) }
}
impl Sub<G1> for G1 { type Output = G1; #[verifier::external_body] fn sub(self, rhs: G1) -> G1 { unimplemented!() } }
impl vstd::std_specs::ops::SubSpecImpl<G2> for G2 {
    open spec fn obeys_sub_spec() -> bool { true }
    open spec fn sub_req(self, rhs: G2) -> bool { true }
    open spec fn sub_spec(self, rhs: G2) -> G2 { mk_g2(b_sub(self@, rhs@)) }
}
impl Sub<G2> for G2 { type Output = G2; #[verifier::external_body] fn sub(self, rhs: G2) -> G2 { unimplemented!() } }
impl vstd::std_specs::ops::SubAssignSpecImpl<&G1> for G1 {
    open spec fn obeys_sub_assign_spec() -> bool { true }
    open spec fn sub_assign_req(&self, rhs: &G1) -> bool { true }
    open spec fn sub_assign_spec(&self, rhs: &G1) -> &G1 { &mk_g1(a_sub(self@, rhs@)) }
}
impl SubAssign<&G1> for G1 { #[verifier::external_body] fn sub_assign(&mut self, rhs: &G1) { unimplemented!() } }
impl vstd::std_specs::ops::SubAssignSpecImpl<G1> for G1 {
    open spec fn obeys_sub_assign_spec() -> bool { true }
    open spec fn sub_assign_req(&self, rhs: G1) -> bool { true }
    open spec fn sub_assign_spec(&self, rhs: G1) -> &G1 { &mk_g1(a_sub(self@, rhs@)) }
}
impl SubAssign<G1> for G1 { #[verifier::external_body] fn sub_assign(&mut self, rhs: G1) { unimplemented!() } }
pub trait IntoG1 { spec fn g1v(&self) -> AS; }
impl IntoG1 for G1 { open spec fn g1v(&self) -> AS { self@ } }
impl IntoG1 for G1Affine { open spec fn g1v(&self) -> AS { self@ } }
pub trait IntoG2 { spec fn g2v(&self) -> BS; }
impl IntoG2 for G2 { open spec fn g2v(&self) -> BS { self@ } }
impl IntoG2 for G2Affine { open spec fn g2v(&self) -> BS { self@ } }

pub struct E;
impl E {
    #[verifier::external_body]
    pub fn pairing<A: IntoG1, B: IntoG2>(a: A, b: B) -> (r: GT) ensures r@ == pair(a.g1v(), b.g2v()) { unimplemented!() }
}
impl vstd::std_specs::cmp::PartialEqSpecImpl for GT {
    open spec fn obeys_eq_spec() -> bool { true }
    open spec fn eq_spec(&self, o: &GT) -> bool { self@ == o@ }
}
impl PartialEq for GT {
    #[verifier::external_body]
    fn eq(&self, o: &GT) -> (r: bool) { unimplemented!() }
}

pub struct VerifierKey { pub g: G1Affine, pub gamma_g: G1Affine, pub h: G2Affine, pub beta_h: G2Affine }
pub struct Commitment(pub G1Affine);
pub struct Proof { pub w: G1Affine, pub random_v: Option<Fr> }
pub enum Error { X }

pub open spec fn kzg_relation(vk: &VerifierKey, comm: &Commitment, point: Fr, value: Fr, proof: &Proof) -> bool {
    let inner0 = a_sub(comm.0@, a_scale(vk.g@, value@));
    let inner = match proof.random_v { Some(rv) => a_sub(inner0, a_scale(vk.gamma_g@, rv@)), None => inner0 };
    pair(inner, vk.h@) == pair(proof.w@, b_sub(vk.beta_h@, b_scale(vk.h@, point@)))
}

    pub fn check(
        vk: &VerifierKey,
        comm: &Commitment,
        point: Fr,
        value: Fr,
        proof: &Proof,
    ) -> (res: Result<bool, Error>)
      ensures res is Ok, res->Ok_0 == kzg_relation(vk, comm, point, value, proof)
    {
        broadcast use ax_mk_g1, ax_mk_g2;
        let mut inner = comm.0.into_group() - &vk.g.mul(value);
        if let Some(random_v) = proof.random_v {
            inner -= &vk.gamma_g.mul(random_v);
        }
        let lhs = E::pairing(inner, vk.h);

        let inner = vk.beta_h.into_group() - &vk.h.mul(point);
        let rhs = E::pairing(proof.w, inner);

        Ok(lhs == rhs)
    }
} // verus!
fn main() {}
