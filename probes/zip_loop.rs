use vstd::prelude::*;
verus! {
spec fn sum2(a: Seq<u64>, b: Seq<u64>, n: int) -> int decreases n {
  if n <= 0 { 0 } else { sum2(a,b,n-1) + a[n-1] + b[n-1] }
}
fn f1(a: &Vec<u64>, b: &Vec<u64>) -> (r: u64) 
  requires a.len() == b.len(), forall|i:int| 0 <= i < a.len() ==> a[i] < 1000 && b[i] < 1000, a.len() < 1000
  ensures r == sum2(a@, b@, a.len() as int)
{
    let mut s: u64 = 0;
    for (x, y) in it: a.iter().zip(b.iter()) 
      invariant it.index@ <= a.len(), s == sum2(a@, b@, it.index@), s <= 2000 * it.index@,
         a.len() == b.len(), forall|i:int| 0 <= i < a.len() ==> a[i] < 1000 && b[i] < 1000, a.len() < 1000
    {
        s = s + *x + *y;
    }
    s
}
} // verus!
fn main() {}
