use vstd::prelude::*;
verus! {
#[verifier::external_body] #[derive(Clone, Copy)] pub struct G1Affine { _x: u8 }
#[verifier::external_body] #[derive(Clone, Copy)] pub struct G2Affine { _x: u8 }
#[verifier::external_body] pub struct G2Prepared { _x: u8 }
#[derive(Clone, Copy, PartialEq, Eq)] pub enum Compress { Yes, No }
#[derive(Clone, Copy, PartialEq, Eq)] pub enum Validate { Yes, No }
pub enum SerializationError { NotEnoughSpace, InvalidData, UnexpectedFlags, IoError }

pub struct Sink { pub bytes: Ghost<Seq<u8>> }
pub struct Source { pub bytes: Ghost<Seq<u8>> }

pub trait Canon: Sized {
    spec fn ser(&self, c: Compress) -> Seq<u8>;
    fn serialize_with_mode(&self, writer: &mut Sink, compress: Compress) -> (r: Result<(), SerializationError>)
        ensures r is Ok ==> final(writer).bytes@ == old(writer).bytes@ + self.ser(compress);
    fn serialized_size(&self, compress: Compress) -> (r: usize)
        ensures r == self.ser(compress).len();
    fn deserialize_with_mode(reader: &mut Source, compress: Compress, validate: Validate) -> (r: Result<Self, SerializationError>)
        ensures 
          r is Ok ==> old(reader).bytes@ == r->Ok_0.ser(compress) + final(reader).bytes@;
    // canonical (prefix-free, injective) encoding + totality on well-formed prefixes: assumed on ark-serialize
    proof fn ser_injective(a: Self, b: Self, c: Compress, ra: Seq<u8>, rb: Seq<u8>)
        requires a.ser(c) + ra == b.ser(c) + rb
        ensures a.ser(c) == b.ser(c), ra == rb;
}
impl Canon for G1Affine {
    uninterp spec fn ser(&self, c: Compress) -> Seq<u8>;
    #[verifier::external_body] fn serialize_with_mode(&self, writer: &mut Sink, compress: Compress) -> (r: Result<(), SerializationError>) { unimplemented!() }
    #[verifier::external_body] fn serialized_size(&self, compress: Compress) -> (r: usize) { unimplemented!() }
    #[verifier::external_body] fn deserialize_with_mode(reader: &mut Source, compress: Compress, validate: Validate) -> (r: Result<Self, SerializationError>) { unimplemented!() }
    #[verifier::external_body] proof fn ser_injective(a: Self, b: Self, c: Compress, ra: Seq<u8>, rb: Seq<u8>) {}
}
impl Canon for G2Affine {
    uninterp spec fn ser(&self, c: Compress) -> Seq<u8>;
    #[verifier::external_body] fn serialize_with_mode(&self, writer: &mut Sink, compress: Compress) -> (r: Result<(), SerializationError>) { unimplemented!() }
    #[verifier::external_body] fn serialized_size(&self, compress: Compress) -> (r: usize) { unimplemented!() }
    #[verifier::external_body] fn deserialize_with_mode(reader: &mut Source, compress: Compress, validate: Validate) -> (r: Result<Self, SerializationError>) { unimplemented!() }
    #[verifier::external_body] proof fn ser_injective(a: Self, b: Self, c: Compress, ra: Seq<u8>, rb: Seq<u8>) {}
}
pub uninterp spec fn prep(h: G2Affine) -> G2Prepared;
impl G2Prepared { #[verifier::external_body] pub fn from(h: G2Affine) -> (r: G2Prepared) ensures r == prep(h) { unimplemented!() } }
impl G2Affine { #[verifier::external_body] pub fn clone(&self) -> (r: G2Affine) ensures r == *self { unimplemented!() } }

pub struct VerifierKey { pub g: G1Affine, pub gamma_g: G1Affine, pub h: G2Affine, pub beta_h: G2Affine, pub prepared_h: G2Prepared, pub prepared_beta_h: G2Prepared }
impl VerifierKey { 
  #[verifier::external_body] pub fn check(&self) -> (r: Result<(), SerializationError>) { unimplemented!() } 
  pub open spec fn wf(&self) -> bool { self.prepared_h == prep(self.h) && self.prepared_beta_h == prep(self.beta_h) }
}

pub open spec fn vk_ser(vk: &VerifierKey, c: Compress) -> Seq<u8> {
    vk.g.ser(c) + vk.gamma_g.ser(c) + vk.h.ser(c) + vk.beta_h.ser(c)
}

    fn serialize_with_mode(
        self_: &VerifierKey,
        writer: &mut Sink,
        compress: Compress,
    ) -> (res: Result<(), SerializationError>)
      ensures res is Ok ==> final(writer).bytes@ =~= old(writer).bytes@ + vk_ser(self_, compress)
    {
        self_.g.serialize_with_mode(&mut *writer, compress)?;
        self_.gamma_g.serialize_with_mode(&mut *writer, compress)?;
        self_.h.serialize_with_mode(&mut *writer, compress)?;
        self_.beta_h.serialize_with_mode(&mut *writer, compress)
    }

    fn serialized_size(self_: &VerifierKey, compress: Compress) -> (r: usize)
       requires vk_ser(self_, compress).len() <= usize::MAX
       ensures r == vk_ser(self_, compress).len()
    {
        self_.g.serialized_size(compress)
            + self_.gamma_g.serialized_size(compress)
            + self_.h.serialized_size(compress)
            + self_.beta_h.serialized_size(compress)
    }

    fn deserialize_with_mode(
        reader: &mut Source,
        compress: Compress,
        validate: Validate,
    ) -> (res: Result<VerifierKey, SerializationError>) 
      ensures res is Ok ==> old(reader).bytes@ =~= vk_ser(&res->Ok_0, compress) + final(reader).bytes@ && res->Ok_0.wf()
    {
        let g = G1Affine::deserialize_with_mode(&mut *reader, compress, Validate::No)?;
        let gamma_g = G1Affine::deserialize_with_mode(&mut *reader, compress, Validate::No)?;
        let h = G2Affine::deserialize_with_mode(&mut *reader, compress, Validate::No)?;
        let beta_h = G2Affine::deserialize_with_mode(&mut *reader, compress, Validate::No)?;

        let prepared_h = G2Prepared::from(h.clone());
        let prepared_beta_h = G2Prepared::from(beta_h.clone());
        let result = VerifierKey {
            g,
            gamma_g,
            h,
            beta_h,
            prepared_h,
            prepared_beta_h,
        };
        if let Validate::Yes = validate {
            result.check()?;
        }

        Ok(result)
    }

// round trip lemma over the two contracts
proof fn roundtrip(x: VerifierKey, y: VerifierKey, c: Compress, rest: Seq<u8>, rest2: Seq<u8>)
   requires vk_ser(&x, c) + rest == vk_ser(&y, c) + rest2
   ensures x.g.ser(c) == y.g.ser(c), x.gamma_g.ser(c) == y.gamma_g.ser(c), x.h.ser(c) == y.h.ser(c), x.beta_h.ser(c) == y.beta_h.ser(c), rest == rest2
{
   let a1 = x.gamma_g.ser(c) + x.h.ser(c) + x.beta_h.ser(c) + rest;
   let b1 = y.gamma_g.ser(c) + y.h.ser(c) + y.beta_h.ser(c) + rest2;
   assert(vk_ser(&x, c) + rest =~= x.g.ser(c) + a1);
   assert(vk_ser(&y, c) + rest2 =~= y.g.ser(c) + b1);
   G1Affine::ser_injective(x.g, y.g, c, a1, b1);
   let a2 = x.h.ser(c) + x.beta_h.ser(c) + rest; let b2 = y.h.ser(c) + y.beta_h.ser(c) + rest2;
   assert(a1 =~= x.gamma_g.ser(c) + a2); assert(b1 =~= y.gamma_g.ser(c) + b2);
   G1Affine::ser_injective(x.gamma_g, y.gamma_g, c, a2, b2);
   let a3 = x.beta_h.ser(c) + rest; let b3 = y.beta_h.ser(c) + rest2;
   assert(a2 =~= x.h.ser(c) + a3); assert(b2 =~= y.h.ser(c) + b3);
   G2Affine::ser_injective(x.h, y.h, c, a3, b3);
   G2Affine::ser_injective(x.beta_h, y.beta_h, c, rest, rest2);
}
}
fn main() {}
