use vstd::prelude::*;
macro_rules! assert_eq { ($a:expr, $b:expr $(, $($rest:tt)*)?) => { rt_assert($a == $b) } }
macro_rules! start_timer { ($($t:tt)*) => { () } }
macro_rules! end_timer { ($($t:tt)*) => { () } }
use std::ops::{Sub, SubAssign, Mul, Add, AddAssign, MulAssign};
verus! {

// ===== abstract algebra (spec level) =====
#[verifier::external_body] pub struct FS { _x: u8 }   // scalar field element
#[verifier::external_body] pub struct AS { _x: u8 }   // G1 element
#[verifier::external_body] pub struct BS { _x: u8 }   // G2 element
#[verifier::external_body] pub struct TS { _x: u8 }   // GT element
pub uninterp spec fn a_add(a: AS, b: AS) -> AS;
pub uninterp spec fn a_neg(a: AS) -> AS;
pub uninterp spec fn a_scale(a: AS, s: FS) -> AS;
pub uninterp spec fn b_add(a: BS, b: BS) -> BS;
pub uninterp spec fn b_neg(a: BS) -> BS;
pub uninterp spec fn b_scale(a: BS, s: FS) -> BS;
pub uninterp spec fn pair(a: AS, b: BS) -> TS;
pub open spec fn a_sub(a: AS, b: AS) -> AS { a_add(a, a_neg(b)) }
pub open spec fn b_sub(a: BS, b: BS) -> BS { b_add(a, b_neg(b)) }

// ===== exec shim types =====
#[derive(Clone, Copy)] pub struct Fr { pub v: Ghost<FS> }
#[derive(Clone, Copy)] pub struct G1 { pub v: Ghost<AS> }
#[derive(Clone, Copy)] pub struct G1Affine { pub v: Ghost<AS> }
#[derive(Clone, Copy)] pub struct G2 { pub v: Ghost<BS> }
#[derive(Clone, Copy)] pub struct G2Affine { pub v: Ghost<BS> }
#[derive(Clone, Copy)] pub struct GT { pub v: Ghost<TS> }
impl View for Fr { type V = FS; open spec fn view(&self) -> FS { self.v@ } }
impl View for G1 { type V = AS; open spec fn view(&self) -> AS { self.v@ } }
impl View for G1Affine { type V = AS; open spec fn view(&self) -> AS { self.v@ } }
impl View for G2 { type V = BS; open spec fn view(&self) -> BS { self.v@ } }
impl View for G2Affine { type V = BS; open spec fn view(&self) -> BS { self.v@ } }
impl View for GT { type V = TS; open spec fn view(&self) -> TS { self.v@ } }
pub open spec fn mk_g1(a: AS) -> G1 { G1 { v: Ghost(a) } }
pub open spec fn mk_g2(a: BS) -> G2 { G2 { v: Ghost(a) } }

impl G1Affine {
    #[verifier::external_body]
    pub fn into_group(self) -> (r: G1) ensures r@ == self@ { unimplemented!() }
    #[verifier::external_body]
    pub fn mul(self, s: Fr) -> (r: G1) ensures r@ == a_scale(self@, s@) { unimplemented!() }
}
impl G2Affine {
    #[verifier::external_body]
    pub fn into_group(self) -> (r: G2) ensures r@ == self@ { unimplemented!() }
    #[verifier::external_body]
    pub fn mul(self, s: Fr) -> (r: G2) ensures r@ == b_scale(self@, s@) { unimplemented!() }
}
impl vstd::std_specs::ops::SubSpecImpl<&G1> for G1 {
    open spec fn obeys_sub_spec() -> bool { true }
    open spec fn sub_req(self, rhs: &G1) -> bool { true }
    open spec fn sub_spec(self, rhs: &G1) -> G1 { mk_g1(a_sub(self@, rhs@)) }
}
impl Sub<&G1> for G1 { type Output = G1; #[verifier::external_body] fn sub(self, rhs: &G1) -> G1 { unimplemented!() } }
impl vstd::std_specs::ops::SubSpecImpl<&G2> for G2 {
    open spec fn obeys_sub_spec() -> bool { true }
    open spec fn sub_req(self, rhs: &G2) -> bool { true }
    open spec fn sub_spec(self, rhs: &G2) -> G2 { mk_g2(b_sub(self@, rhs@)) }
}
impl Sub<&G2> for G2 { type Output = G2; #[verifier::external_body] fn sub(self, rhs: &G2) -> G2 { unimplemented!() } }


impl vstd::std_specs::ops::SubSpecImpl<G1> for G1 {
    open spec fn obeys_sub_spec() -> bool { true }
    open spec fn sub_req(self, rhs: G1) -> bool { true }
    open spec fn sub_spec(self, rhs: G1) -> G1 { mk_g1(a_sub(self@, rhs@)) }
}
impl Sub<G1> for G1 { type Output = G1; #[verifier::external_body] fn sub(self, rhs: G1) -> G1 { unimplemented!() } }
impl vstd::std_specs::ops::SubSpecImpl<G2> for G2 {
    open spec fn obeys_sub_spec() -> bool { true }
    open spec fn sub_req(self, rhs: G2) -> bool { true }
    open spec fn sub_spec(self, rhs: G2) -> G2 { mk_g2(b_sub(self@, rhs@)) }
}
impl Sub<G2> for G2 { type Output = G2; #[verifier::external_body] fn sub(self, rhs: G2) -> G2 { unimplemented!() } }
impl vstd::std_specs::ops::SubAssignSpecImpl<&G1> for G1 {
    open spec fn obeys_sub_assign_spec() -> bool { true }
    open spec fn sub_assign_req(&self, rhs: &G1) -> bool { true }
    open spec fn sub_assign_spec(&self, rhs: &G1) -> &G1 { &mk_g1(a_sub(self@, rhs@)) }
}
impl SubAssign<&G1> for G1 { #[verifier::external_body] fn sub_assign(&mut self, rhs: &G1) { unimplemented!() } }
impl vstd::std_specs::ops::SubAssignSpecImpl<G1> for G1 {
    open spec fn obeys_sub_assign_spec() -> bool { true }
    open spec fn sub_assign_req(&self, rhs: G1) -> bool { true }
    open spec fn sub_assign_spec(&self, rhs: G1) -> &G1 { &mk_g1(a_sub(self@, rhs@)) }
}
impl SubAssign<G1> for G1 { #[verifier::external_body] fn sub_assign(&mut self, rhs: G1) { unimplemented!() } }
pub trait IntoG1 { spec fn g1v(&self) -> AS; }
impl IntoG1 for G1 { open spec fn g1v(&self) -> AS { self@ } }
impl IntoG1 for G1Affine { open spec fn g1v(&self) -> AS { self@ } }
pub trait IntoG2 { spec fn g2v(&self) -> BS; }
impl IntoG2 for G2 { open spec fn g2v(&self) -> BS { self@ } }
impl IntoG2 for G2Affine { open spec fn g2v(&self) -> BS { self@ } }

pub struct E;
impl E {
    #[verifier::external_body]
    pub fn pairing<A: IntoG1, B: IntoG2>(a: A, b: B) -> (r: GT) ensures r@ == pair(a.g1v(), b.g2v()) { unimplemented!() }
}
impl vstd::std_specs::cmp::PartialEqSpecImpl for GT {
    open spec fn obeys_eq_spec() -> bool { true }
    open spec fn eq_spec(&self, o: &GT) -> bool { self@ == o@ }
}
impl PartialEq for GT {
    #[verifier::external_body]
    fn eq(&self, o: &GT) -> (r: bool) { unimplemented!() }
}


pub uninterp spec fn f_add(a: FS, b: FS) -> FS;
pub uninterp spec fn f_mul(a: FS, b: FS) -> FS;
pub uninterp spec fn f_zero() -> FS;
pub uninterp spec fn a_zero() -> AS;
pub open spec fn mk_fr(a: FS) -> Fr { Fr { v: Ghost(a) } }
impl Fr { #[verifier::external_body] pub fn zero() -> (r: Fr) ensures r@ == f_zero() { unimplemented!() } }
impl G1 { #[verifier::external_body] pub fn zero() -> (r: G1) ensures r@ == a_zero() { unimplemented!() } 
          #[verifier::external_body] pub fn mul(self, s: Fr) -> (r: G1) ensures r@ == a_scale(self@, s@) { unimplemented!() } }
impl vstd::std_specs::ops::MulSpecImpl<Fr> for Fr {
    open spec fn obeys_mul_spec() -> bool { true }
    open spec fn mul_req(self, rhs: Fr) -> bool { true }
    open spec fn mul_spec(self, rhs: Fr) -> Fr { mk_fr(f_mul(self@, rhs@)) }
}
impl Mul<Fr> for Fr { type Output = Fr; #[verifier::external_body] fn mul(self, rhs: Fr) -> Fr { unimplemented!() } }
impl vstd::std_specs::ops::MulSpecImpl<&Fr> for Fr {
    open spec fn obeys_mul_spec() -> bool { true }
    open spec fn mul_req(self, rhs: &Fr) -> bool { true }
    open spec fn mul_spec(self, rhs: &Fr) -> Fr { mk_fr(f_mul(self@, rhs@)) }
}
impl Mul<&Fr> for Fr { type Output = Fr; #[verifier::external_body] fn mul(self, rhs: &Fr) -> Fr { unimplemented!() } }
impl vstd::std_specs::ops::AddAssignSpecImpl<Fr> for Fr {
    open spec fn obeys_add_assign_spec() -> bool { true }
    open spec fn add_assign_req(&self, rhs: Fr) -> bool { true }
    open spec fn add_assign_spec(&self, rhs: Fr) -> &Fr { &mk_fr(f_add(self@, rhs@)) }
}
impl AddAssign<Fr> for Fr { #[verifier::external_body] fn add_assign(&mut self, rhs: Fr) { unimplemented!() } }
impl vstd::std_specs::ops::AddAssignSpecImpl<&Fr> for Fr {
    open spec fn obeys_add_assign_spec() -> bool { true }
    open spec fn add_assign_req(&self, rhs: &Fr) -> bool { true }
    open spec fn add_assign_spec(&self, rhs: &Fr) -> &Fr { &mk_fr(f_add(self@, rhs@)) }
}
impl AddAssign<&Fr> for Fr { #[verifier::external_body] fn add_assign(&mut self, rhs: &Fr) { unimplemented!() } }
impl vstd::std_specs::ops::AddAssignSpecImpl<G1> for G1 {
    open spec fn obeys_add_assign_spec() -> bool { true }
    open spec fn add_assign_req(&self, rhs: G1) -> bool { true }
    open spec fn add_assign_spec(&self, rhs: G1) -> &G1 { &mk_g1(a_add(self@, rhs@)) }
}
impl AddAssign<G1> for G1 { #[verifier::external_body] fn add_assign(&mut self, rhs: G1) { unimplemented!() } }
impl vstd::std_specs::ops::AddAssignSpecImpl<&G1> for G1 {
    open spec fn obeys_add_assign_spec() -> bool { true }
    open spec fn add_assign_req(&self, rhs: &G1) -> bool { true }
    open spec fn add_assign_spec(&self, rhs: &G1) -> &G1 { &mk_g1(a_add(self@, rhs@)) }
}
impl AddAssign<&G1> for G1 { #[verifier::external_body] fn add_assign(&mut self, rhs: &G1) { unimplemented!() } }
impl vstd::std_specs::ops::MulAssignSpecImpl<Fr> for G1 {
    open spec fn obeys_mul_assign_spec() -> bool { true }
    open spec fn mul_assign_req(&self, rhs: Fr) -> bool { true }
    open spec fn mul_assign_spec(&self, rhs: Fr) -> &G1 { &mk_g1(a_scale(self@, rhs@)) }
}
impl MulAssign<Fr> for G1 { #[verifier::external_body] fn mul_assign(&mut self, rhs: Fr) { unimplemented!() } }
impl vstd::std_specs::ops::MulAssignSpecImpl<&Fr> for G1 {
    open spec fn obeys_mul_assign_spec() -> bool { true }
    open spec fn mul_assign_req(&self, rhs: &Fr) -> bool { true }
    open spec fn mul_assign_spec(&self, rhs: &Fr) -> &G1 { &mk_g1(a_scale(self@, rhs@)) }
}
impl MulAssign<&Fr> for G1 { #[verifier::external_body] fn mul_assign(&mut self, rhs: &Fr) { unimplemented!() } }


// ---------- additional shim for KZG10::commit ----------
pub uninterp spec fn f_one() -> FS;
#[derive(Clone, Copy)] pub struct BigInt { pub v: Ghost<FS> }          // into_bigint is injective: carry the field value
impl View for BigInt { type V = FS; open spec fn view(&self) -> FS { self.v@ } }
impl Fr { #[verifier::external_body] pub fn into_bigint(&self) -> (r: BigInt) ensures r@ == self@ { unimplemented!() }
          #[verifier::external_body] pub fn is_zero(&self) -> (r: bool) ensures r == (self@ == f_zero()) { unimplemented!() } }
pub open spec fn msm(bases: Seq<G1Affine>, s: Seq<FS>, n: nat) -> AS decreases n {
    if n == 0 { a_zero() } else { a_add(msm(bases, s, (n - 1) as nat), a_scale(bases[n - 1]@, s[n - 1])) }
}
pub open spec fn min(a: nat, b: nat) -> nat { if a <= b { a } else { b } }
pub open spec fn views(s: Seq<BigInt>) -> Seq<FS> { Seq::new(s.len(), |i: int| s[i]@) }
pub open spec fn fviews(s: Seq<Fr>) -> Seq<FS> { Seq::new(s.len(), |i: int| s[i]@) }
impl G1 {
    #[verifier::external_body]
    pub fn msm_bigint(bases: &[G1Affine], bigints: &[BigInt]) -> (r: G1)
        ensures r@ == msm(bases@, views(bigints@), min(bases.len() as nat, bigints.len() as nat)) { unimplemented!() }
    #[verifier::external_body]
    pub fn into_affine(self) -> (r: G1Affine) ensures r@ == self@ { unimplemented!() }
    #[verifier::external_body]
    pub fn into(self) -> (r: G1Affine) ensures r@ == self@ { unimplemented!() }
}
impl vstd::std_specs::ops::AddAssignSpecImpl<&G1Affine> for G1 {
    open spec fn obeys_add_assign_spec() -> bool { true }
    open spec fn add_assign_req(&self, rhs: &G1Affine) -> bool { true }
    open spec fn add_assign_spec(&self, rhs: &G1Affine) -> &G1 { &mk_g1(a_add(self@, rhs@)) }
}
impl AddAssign<&G1Affine> for G1 { #[verifier::external_body] fn add_assign(&mut self, rhs: &G1Affine) { unimplemented!() } }
impl vstd::std_specs::ops::AddAssignSpecImpl<G1Affine> for G1 {
    open spec fn obeys_add_assign_spec() -> bool { true }
    open spec fn add_assign_req(&self, rhs: G1Affine) -> bool { true }
    open spec fn add_assign_spec(&self, rhs: G1Affine) -> &G1 { &mk_g1(a_add(self@, rhs@)) }
}
impl AddAssign<G1Affine> for G1 { #[verifier::external_body] fn add_assign(&mut self, rhs: G1Affine) { unimplemented!() } }

// RNG as a ghost stream position
pub struct Rng { pub id: Ghost<int>, pub pos: Ghost<nat> }
pub uninterp spec fn draw(id: int, pos: nat) -> FS;
// dense univariate polynomial: view = coefficient sequence
pub struct Poly { pub coeffs: Vec<Fr> }
impl Poly {
    pub open spec fn degree_spec(&self) -> nat { if self.coeffs@.len() == 0 { 0 } else { (self.coeffs@.len() - 1) as nat } }
    pub fn coeffs(&self) -> (r: &[Fr]) ensures r@ == self.coeffs@ { self.coeffs.as_slice() }
    #[verifier::external_body]
    pub fn degree(&self) -> (r: usize) ensures r == (if self.coeffs.len() == 0 { 0 } else { (self.coeffs.len() - 1) as usize }) { unimplemented!() }
    #[verifier::external_body]
    pub fn zero() -> (r: Poly) ensures r.coeffs@.len() == 0 { unimplemented!() }
    // ark-poly: P::rand(d, rng) draws d + 1 coefficients from the stream
    #[verifier::external_body]
    pub fn rand(d: usize, rng: &mut Rng) -> (r: Poly)
        ensures r.coeffs@.len() == d + 1, final(rng).id == old(rng).id, final(rng).pos@ == old(rng).pos@ + d + 1,
                forall|i: int| 0 <= i <= d ==> r.coeffs@[i]@ == draw(old(rng).id@, old(rng).pos@ + i as nat)
    { unimplemented!() }
}
pub struct Powers { pub powers_of_g: Vec<G1Affine>, pub powers_of_gamma_g: Vec<G1Affine> }
impl Powers { pub fn size(&self) -> (r: usize) ensures r == self.powers_of_g.len() { self.powers_of_g.len() } }
pub struct KCommitment(pub G1Affine);
pub struct Randomness { pub blinding_polynomial: Poly }
impl Randomness {
    pub fn empty() -> (r: Randomness) ensures r.blinding_polynomial.coeffs@.len() == 0 { Randomness { blinding_polynomial: Poly::zero() } }
    #[verifier::external_body]   // contract of the (separately verified) unit kzg10::Randomness::rand
    pub fn rand(hiding_bound: usize, _a: bool, _b: Option<usize>, rng: &mut Rng) -> (r: Randomness)
        requires hiding_bound < usize::MAX
        ensures r.blinding_polynomial.coeffs@.len() == hiding_bound + 2, final(rng).id == old(rng).id, final(rng).pos@ == old(rng).pos@ + hiding_bound + 2,
                forall|i: int| 0 <= i <= hiding_bound + 1 ==> r.blinding_polynomial.coeffs@[i]@ == draw(old(rng).id@, old(rng).pos@ + i as nat)
    { unimplemented!() }
}
pub enum Error { MissingRng, TooManyCoefficients { num_coefficients: usize, num_powers: usize }, HidingBoundIsZero, HidingBoundToolarge { hiding_poly_degree: usize, num_powers: usize } }
#[verifier::external_body] pub fn rt_assert(c: bool) ensures c { if !c { panic!() } }

    fn check_degree_is_too_large(degree: usize, num_powers: usize) -> (res: Result<(), Error>) 
      requires degree < usize::MAX
      ensures (res is Ok) == (degree + 1 <= num_powers)
    {
        let num_coefficients = degree + 1;
        if num_coefficients > num_powers {
            Err(Error::TooManyCoefficients {
                num_coefficients,
                num_powers,
            })
        } else {
            Ok(())
        }
    }

    fn check_hiding_bound(
        hiding_poly_degree: usize,
        num_powers: usize,
    ) -> (res: Result<(), Error>) 
      ensures (res is Ok) == (hiding_poly_degree != 0 && hiding_poly_degree < num_powers)
    {
        if hiding_poly_degree == 0 {
            Err(Error::HidingBoundIsZero)
        } else if hiding_poly_degree >= num_powers {
            // The above check uses `>=` because committing to a hiding poly with
            // degree `hiding_poly_degree` requires `hiding_poly_degree + 1`
            // powers.
            Err(Error::HidingBoundToolarge {
                hiding_poly_degree,
                num_powers,
            })
        } else {
            Ok(())
        }
    }

fn skip_leading_zeros_and_convert_to_bigints(
    p: &Poly,
) -> (res: (usize, Vec<BigInt>))
  ensures res.0 <= p.coeffs@.len(), res.1@.len() == p.coeffs@.len() - res.0,
          forall|i: int| 0 <= i < res.0 ==> p.coeffs@[i]@ == f_zero(),
          forall|i: int| 0 <= i < res.1@.len() ==> res.1@[i]@ == p.coeffs@[res.0 + i]@,
{
    let mut num_leading_zeros = 0;
    while num_leading_zeros < p.coeffs().len() && p.coeffs()[num_leading_zeros].is_zero() 
      invariant num_leading_zeros <= p.coeffs@.len(), forall|i: int| 0 <= i < num_leading_zeros ==> p.coeffs@[i]@ == f_zero()
      decreases p.coeffs@.len() - num_leading_zeros
    {
        num_leading_zeros += 1;
    }
    let coeffs = convert_to_bigints(&p.coeffs()[num_leading_zeros..]);
    (num_leading_zeros, coeffs)
}

fn convert_to_bigints(p: &[Fr]) -> (res: Vec<BigInt>) 
  ensures res@.len() == p@.len(), forall|i: int| 0 <= i < p@.len() ==> res@[i]@ == p@[i]@
{
    let to_bigint_time = start_timer!(|| "Converting polynomial coeffs to bigints");
    let coeffs = p.iter()
        .map(|s: &Fr| -> (b: BigInt) ensures b@ == s@ { s.into_bigint() })
        .collect::<Vec<_>>();
    end_timer!(to_bigint_time);
    coeffs
}


pub broadcast axiom fn ax_scale_zero(g: AS) ensures #[trigger] a_scale(g, f_zero()) == a_zero();
pub broadcast axiom fn ax_a_add_zero(a: AS) ensures #[trigger] a_add(a, a_zero()) == a;
pub proof fn lemma_msm_zero_prefix(bases: Seq<G1Affine>, s: Seq<FS>, n: nat, k: nat)
    requires k <= n, n <= bases.len(), n <= s.len(), forall|i: int| 0 <= i < k ==> s[i] == f_zero()
    ensures msm(bases.subrange(k as int, bases.len() as int), s.subrange(k as int, n as int), (n - k) as nat) == msm(bases, s, n)
    decreases n
{
    broadcast use ax_scale_zero, ax_a_add_zero;
    let b2 = bases.subrange(k as int, bases.len() as int);
    if n == k {
        lemma_msm_all_zero(bases, s, n);
    } else {
        lemma_msm_zero_prefix(bases, s, (n - 1) as nat, k);
        let s2 = s.subrange(k as int, n as int);
        let s3 = s.subrange(k as int, (n - 1) as int);
        lemma_msm_ext(b2, s2, s3, (n - 1 - k) as nat);
        assert(b2[n - k - 1] == bases[n - 1]);
        assert(s2[n - k - 1] == s[n - 1]);
    }
}
pub proof fn lemma_msm_all_zero(bases: Seq<G1Affine>, s: Seq<FS>, n: nat)
    requires n <= bases.len(), n <= s.len(), forall|i: int| 0 <= i < n ==> s[i] == f_zero()
    ensures msm(bases, s, n) == a_zero()
    decreases n
{ broadcast use ax_scale_zero, ax_a_add_zero; if n > 0 { lemma_msm_all_zero(bases, s, (n - 1) as nat); } }
pub proof fn lemma_msm_ext(bases: Seq<G1Affine>, s: Seq<FS>, t: Seq<FS>, n: nat)
    requires n <= s.len(), n <= t.len(), forall|i: int| 0 <= i < n ==> s[i] == t[i]
    ensures msm(bases, s, n) == msm(bases, t, n)
    decreases n
{ if n > 0 { lemma_msm_ext(bases, s, t, (n - 1) as nat); } }

pub open spec fn commit_spec(powers: &Powers, polynomial: &Poly, blind: Seq<FS>) -> AS {
    a_add(msm(powers.powers_of_g@, fviews(polynomial.coeffs@), polynomial.coeffs@.len()),
          msm(powers.powers_of_gamma_g@, blind, min(powers.powers_of_gamma_g@.len(), blind.len())))
}

    pub fn commit(
        powers: &Powers,
        polynomial: &Poly,
        hiding_bound: Option<usize>,
        rng: Option<&mut Rng>,
    ) -> (res: Result<(KCommitment, Randomness), Error>)
      requires polynomial.coeffs@.len() < usize::MAX, hiding_bound is Some ==> hiding_bound->Some_0 < usize::MAX - 1,
      ensures
        // admission
        (polynomial.degree_spec() + 1 > powers.powers_of_g@.len()) ==> res is Err,
        (hiding_bound is Some && rng is None) ==> res is Err,
        // non-hiding: deterministic, no blinding, rng untouched
        (res is Ok && hiding_bound is None) ==> res->Ok_0.1.blinding_polynomial.coeffs@.len() == 0,
        // value
        res is Ok ==> res->Ok_0.0.0@ == commit_spec(powers, polynomial, fviews(res->Ok_0.1.blinding_polynomial.coeffs@)),
        // hiding: h+2 fresh coefficients from the caller's stream
        (res is Ok && hiding_bound is Some) ==> res->Ok_0.1.blinding_polynomial.coeffs@.len() == hiding_bound->Some_0 + 2,
    {
        check_degree_is_too_large(polynomial.degree(), powers.size())?;

        let commit_time = start_timer!(|| format!(
            "Committing to polynomial of degree {} with hiding_bound: {:?}",
            polynomial.degree(),
            hiding_bound,
        ));

        let (num_leading_zeros, plain_coeffs) =
            skip_leading_zeros_and_convert_to_bigints(polynomial);

        let msm_time = start_timer!(|| "MSM to compute commitment to plaintext poly");
        let mut commitment = G1::msm_bigint(
            &powers.powers_of_g[num_leading_zeros..],
            &plain_coeffs,
        );
        end_timer!(msm_time);
        proof {
            let n = polynomial.coeffs@.len(); let k = num_leading_zeros as nat;
            lemma_msm_zero_prefix(powers.powers_of_g@, fviews(polynomial.coeffs@), n, k);
            lemma_msm_ext(powers.powers_of_g@.subrange(k as int, powers.powers_of_g@.len() as int), views(plain_coeffs@), fviews(polynomial.coeffs@).subrange(k as int, n as int), (n - k) as nat);
            assert(commitment@ == msm(powers.powers_of_g@, fviews(polynomial.coeffs@), n));
        }
        let ghost c0 = commitment@;

        let mut randomness = Randomness::empty();
        if let Some(hiding_degree) = hiding_bound {
            let mut rng = rng.ok_or(Error::MissingRng)?;
            let sample_random_poly_time = start_timer!(|| format!(
                "Sampling a random polynomial of degree {}",
                hiding_degree
            ));

            randomness = Randomness::rand(hiding_degree, false, None, &mut rng);
            check_hiding_bound(
                randomness.blinding_polynomial.degree(),
                powers.powers_of_gamma_g.len(),
            )?;
            end_timer!(sample_random_poly_time);
        }

        let random_ints = convert_to_bigints(&randomness.blinding_polynomial.coeffs());
        let msm_time = start_timer!(|| "MSM to compute commitment to random poly");
        let random_commitment = G1::msm_bigint(
            &powers.powers_of_gamma_g,
            random_ints.as_slice(),
        )
        .into_affine();
        end_timer!(msm_time);

        proof { assert(views(random_ints@) =~= fviews(randomness.blinding_polynomial.coeffs@)); 
                assert(random_commitment@ == msm(powers.powers_of_gamma_g@, fviews(randomness.blinding_polynomial.coeffs@), min(powers.powers_of_gamma_g@.len(), randomness.blinding_polynomial.coeffs@.len()))); }
        commitment += &random_commitment;
        proof { assert(commitment@ == a_add(c0, random_commitment@)); }

        end_timer!(commit_time);
        Ok((KCommitment(commitment.into()), randomness))
    }
} // verus!
fn main() {}
