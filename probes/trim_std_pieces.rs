use vstd::prelude::*;
verus! {
pub assume_specification<T: Clone>[ <[T]>::to_vec ](s: &[T]) -> (r: Vec<T>)
    ensures r@ == s@;
pub open spec fn sorted(s: Seq<usize>) -> bool { forall|i: int, j: int| 0 <= i < j < s.len() ==> s[i] <= s[j] }
pub open spec fn strictly_sorted(s: Seq<usize>) -> bool { forall|i: int, j: int| 0 <= i < j < s.len() ==> s[i] < s[j] }
#[verifier::external_body] pub fn sort_usize(s: &mut Vec<usize>) ensures sorted(final(s)@), final(s)@.to_multiset() == old(s)@.to_multiset(), final(s)@.to_set() == old(s)@.to_set() { s.sort() }
#[verifier::external_body] pub fn dedup_usize(v: &mut Vec<usize>) ensures sorted(old(v)@) ==> (strictly_sorted(final(v)@) && final(v)@.to_set() == old(v)@.to_set()) { v.dedup() }
#[verifier::external_body] pub fn binary_search_usize(s: &[usize], x: &usize) -> (r: Result<usize, usize>) ensures sorted(s@) ==> ((r is Ok) == s@.contains(*x)), r is Ok ==> r->Ok_0 < s.len() && s@[r->Ok_0 as int] == *x { s.binary_search(x) }

fn t1(v: &Vec<u64>, s: usize) -> (r: Vec<u64>) requires s < v.len() ensures r@ == v@.subrange(0, s as int + 1) {
    v[..=s].to_vec()
}
fn t2(v: &Vec<u64>, s: usize) -> (r: Vec<u64>) requires s <= v.len() ensures r@ == v@.subrange(s as int, v.len() as int) {
    v[s..].to_vec()
}
fn t3(b: Option<&[usize]>) -> (r: Option<Vec<usize>>) 
   ensures (r is Some) == (b is Some), r is Some ==> strictly_sorted(r->Some_0@) && r->Some_0@.to_set() == b->Some_0@.to_set()
{
    b.map(|v: &[usize]| -> (w: Vec<usize>) ensures strictly_sorted(w@) && w@.to_set() == v@.to_set() { let mut v = v.to_vec(); sort_usize(&mut v); dedup_usize(&mut v); v })
}
fn t5(v: &Vec<usize>, x: usize) -> (r: bool) requires sorted(v@) ensures r == !v@.contains(x) { binary_search_usize(v.as_slice(), &x).is_err() }
}
fn main() {}
