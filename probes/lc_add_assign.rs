use vstd::prelude::*;
use std::ops::{Mul, Neg, AddAssign, SubAssign, MulAssign};
verus! {
#[verifier::external_body] pub struct FS { _x: u8 }
pub uninterp spec fn f_add(a: FS, b: FS) -> FS;
pub uninterp spec fn f_mul(a: FS, b: FS) -> FS;
pub uninterp spec fn f_neg(a: FS) -> FS;
pub uninterp spec fn f_zero() -> FS;
pub uninterp spec fn f_one() -> FS;
pub broadcast axiom fn ax_add_assoc(a: FS, b: FS, c: FS) ensures #[trigger] f_add(f_add(a, b), c) == f_add(a, f_add(b, c));
pub broadcast axiom fn ax_add_zero(a: FS) ensures #[trigger] f_add(a, f_zero()) == a;
pub broadcast axiom fn ax_zero_add(a: FS) ensures #[trigger] f_add(f_zero(), a) == a;
pub broadcast axiom fn ax_distrib(a: FS, b: FS, c: FS) ensures #[trigger] f_mul(a, f_add(b, c)) == f_add(f_mul(a, b), f_mul(a, c));
pub broadcast axiom fn ax_mul_zero(a: FS) ensures #[trigger] f_mul(a, f_zero()) == f_zero();
pub broadcast axiom fn ax_mul_assoc(a: FS, b: FS, c: FS) ensures #[trigger] f_mul(f_mul(a, b), c) == f_mul(a, f_mul(b, c));
#[derive(Clone, Copy)] pub struct Fr { pub v: Ghost<FS> }
impl View for Fr { type V = FS; open spec fn view(&self) -> FS { self.v@ } }
impl vstd::std_specs::ops::MulSpecImpl<&Fr> for Fr {
    open spec fn obeys_mul_spec() -> bool { true }
    open spec fn mul_req(self, rhs: &Fr) -> bool { true }
    open spec fn mul_spec(self, rhs: &Fr) -> Fr { Fr { v: Ghost(f_mul(self@, rhs@)) } }
}
impl Mul<&Fr> for Fr { type Output = Fr; #[verifier::external_body] fn mul(self, rhs: &Fr) -> Fr { unimplemented!() } }
impl vstd::std_specs::ops::MulSpecImpl<Fr> for Fr {
    open spec fn obeys_mul_spec() -> bool { true }
    open spec fn mul_req(self, rhs: Fr) -> bool { true }
    open spec fn mul_spec(self, rhs: Fr) -> Fr { Fr { v: Ghost(f_mul(self@, rhs@)) } }
}
impl Mul<Fr> for Fr { type Output = Fr; #[verifier::external_body] fn mul(self, rhs: Fr) -> Fr { unimplemented!() } }

#[derive(Clone, Copy, PartialEq, Eq)] pub struct Label { pub id: u64 }
pub enum LCTerm { One, PolyLabel(Label) }
impl LCTerm { pub fn clone(&self) -> (r: LCTerm) ensures r == *self { match self { LCTerm::One => LCTerm::One, LCTerm::PolyLabel(l) => LCTerm::PolyLabel(*l) } } }
pub struct LinearCombination { pub label: Label, pub terms: Vec<(Fr, LCTerm)> }

pub open spec fn term_value(t: (Fr, LCTerm), sigma: spec_fn(Label) -> FS) -> FS {
    match t.1 { LCTerm::One => t.0@, LCTerm::PolyLabel(l) => f_mul(t.0@, sigma(l)) }
}
pub open spec fn lc_value(ts: Seq<(Fr, LCTerm)>, sigma: spec_fn(Label) -> FS) -> FS decreases ts.len() {
    if ts.len() == 0 { f_zero() } else { f_add(lc_value(ts.drop_last(), sigma), term_value(ts.last(), sigma)) }
}
pub proof fn lemma_value_concat(a: Seq<(Fr, LCTerm)>, b: Seq<(Fr, LCTerm)>, sigma: spec_fn(Label) -> FS)
    ensures lc_value(a + b, sigma) == f_add(lc_value(a, sigma), lc_value(b, sigma))
    decreases b.len()
{
    broadcast use ax_add_assoc, ax_add_zero, ax_zero_add;
    if b.len() == 0 { assert(a + b =~= a); assert(lc_value(b, sigma) == f_zero()); }
    else { assert((a + b).drop_last() =~= a + b.drop_last()); assert((a+b).last() == b.last()); lemma_value_concat(a, b.drop_last(), sigma);
           assert(lc_value(a + b, sigma) == f_add(lc_value((a + b).drop_last(), sigma), term_value((a+b).last(), sigma)));
           assert(lc_value(b, sigma) == f_add(lc_value(b.drop_last(), sigma), term_value(b.last(), sigma))); }
}
pub proof fn lemma_value_scaled(b: Seq<(Fr, LCTerm)>, sb: Seq<(Fr, LCTerm)>, c: FS, sigma: spec_fn(Label) -> FS)
    requires sb.len() == b.len(), forall|i: int| 0 <= i < b.len() ==> sb[i].1 == b[i].1 && sb[i].0@ == f_mul(c, b[i].0@)
    ensures lc_value(sb, sigma) == f_mul(c, lc_value(b, sigma))
    decreases b.len()
{
    broadcast use ax_distrib, ax_mul_zero, ax_mul_assoc;
    if b.len() > 0 { lemma_value_scaled(b.drop_last(), sb.drop_last(), c, sigma); }
}

// impl<'a, F: Field> AddAssign<(F, &'a LinearCombination<F>)> for LinearCombination<F>   (R3, R5, R7 applied)
    fn add_assign(self_: &mut LinearCombination, coeff: Fr, other: &LinearCombination)
      ensures forall|sigma: spec_fn(Label) -> FS| #![trigger lc_value(final(self_).terms@, sigma)] lc_value(final(self_).terms@, sigma) == f_add(lc_value(old(self_).terms@, sigma), f_mul(coeff@, lc_value(other.terms@, sigma))),
              final(self_).label == old(self_).label,
    {
        let mut t: Vec<(Fr, LCTerm)> = other.terms.iter().map(|p: &(Fr, LCTerm)| -> (q: (Fr, LCTerm)) ensures q.1 == p.1, q.0@ == f_mul(coeff@, p.0@) { let (c, t) = p; (coeff * c, t.clone()) }).collect();
        proof { 
          assert forall|sigma: spec_fn(Label) -> FS| lc_value(self_.terms@ + t@, sigma) == f_add(lc_value(self_.terms@, sigma), f_mul(coeff@, lc_value(other.terms@, sigma))) by {
            lemma_value_concat(self_.terms@, t@, sigma); lemma_value_scaled(other.terms@, t@, coeff@, sigma);
          }
        }
        self_.terms.append(&mut t);
    }
}
fn main() {}
