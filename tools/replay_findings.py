#!/usr/bin/env python3
"""Replay the known findings against the REAL code: copy /repo's current working tree to a scratch directory
(outside /repo and /verif), add the test functions of replay/findings.patch, run them with cargo, report per
finding whether the defect is (still) exhibited, remove the scratch copy.   usage: tools/replay_findings.py [filter]
A test in the patch asserts that the DEFECT IS PRESENT: `ok` = the finding reproduces on the current tree."""
import json, os, re, shutil, subprocess, sys, tempfile
ROOT = os.path.dirname(os.path.dirname(os.path.abspath(__file__)))
REPO = os.environ.get('VERIF_REPO', '/repo')
flt = sys.argv[1] if len(sys.argv) > 1 else 'verif_probe'
d = tempfile.mkdtemp(prefix='vx_replay_', dir='/var/tmp')
try:
    subprocess.run(['rsync', '-a', '--exclude', 'target', '--exclude', '.git', REPO + '/', d + '/'], check=True)
    p = subprocess.run(['patch', '-p0', '--fuzz=3', '-i', os.path.join(ROOT, 'replay', 'findings.patch')], cwd=d, capture_output=True, text=True)
    if p.returncode != 0:
        print('REPLAY-UNDECIDED could not add the replay tests to the current tree:\n' + p.stdout[-800:] + p.stderr[-400:])
        sys.exit(2)
    env = dict(os.environ, CARGO_TARGET_DIR=os.path.join(ROOT, '.cache', 'replay-target'), CARGO_NET_OFFLINE='true')
    r = subprocess.run(['cargo', 'test', '--offline', '-p', 'ark-poly-commit', '--lib', flt, '--', '--nocapture', '--test-threads', '4'],
                       cwd=d, env=env, capture_output=True, text=True)
    out = r.stdout + r.stderr
    res = {}
    for m in re.finditer(r'test (\S*verif_probe\S*|\S*::f\d_\S*) \.\.\. (ok|FAILED)', out):
        fid = re.search(r'f(\d+)_', m.group(1))
        if fid:
            res['F' + fid.group(1)] = dict(test=m.group(1), reproduces=(m.group(2) == 'ok'))
    if not res:
        print('REPLAY-UNDECIDED no replay test ran:\n' + out[-1500:])
        sys.exit(2)
    for k in sorted(res):
        print('REPLAY %s %s (%s)' % (k, 'reproduces on the real code' if res[k]['reproduces'] else 'does NOT reproduce', res[k]['test']))
    for ln in out.split('\n'):
        if re.match(r'^F\d+ ', ln):
            print('  ' + ln)
    json.dump(res, open(os.path.join(ROOT, 'build', 'replay_findings.json'), 'w'), indent=1)
finally:
    shutil.rmtree(d, ignore_errors=True)
