#!/usr/bin/env python3
"""Developer aid: assemble + verify ONE template in a scratch build dir and print the verifier's diagnostics.
   usage: python3 tools/one.py units/<template>.rs [rlimit]"""
import os, sys, json
os.environ.setdefault('VERIF_BUILD_DIR', '/var/tmp/verif_one')
sys.path.insert(0, os.path.dirname(os.path.dirname(os.path.abspath(__file__))))
from vx.run import run_template
r = run_template(sys.argv[1], (), int(sys.argv[2]) if len(sys.argv) > 2 else None)
print('summary', r['summary'], 'emitted', r['emitted'])
for d in r['verus']['diags'][:int(os.environ.get('N', '12'))]:
    m = d.get('message', ''); sp = d.get('spans', [])
    print('--', d.get('level'), m[:300])
    for s in sp[:3]:
        print('     ', s.get('line_start'), (s.get('text') or [{}])[0].get('text', '')[:200].strip(), '|', (s.get('label') or '')[:80])
if not r['verus']['diags'] and r['verus'].get('stderr'):
    print(r['verus']['stderr'][-3000:])
