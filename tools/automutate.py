#!/usr/bin/env python3
"""Automatic mutation survey of the functions under contract.

For every extracted unit, token-level mutation operators are applied to the unit's source lines in a scratch copy of
/repo/poly-commit/src (never /repo itself); the unit's template is re-verified against the copy.  Outcomes:
  killed     the unit (or a unit that uses its contract) no longer verifies
  survived   everything still verifies: either the mutant is equivalent or the contract is too weak -> look at it
  lost       an anchor of the annotations no longer matches (exit 2 in a real run) -> make the anchor structural
  tool       Verus/rustc rejected the emitted text (type error, unsupported construct): not a realistic mutant, ignored
usage: tools/automutate.py [--max N per unit] [--jobs J] [template-substring ...]
Writes build/automutate.json and prints a summary.  This is a self-test of the machinery, not a check."""
import concurrent.futures as cf
import glob, json, os, random, re, shutil, subprocess, sys, tempfile

ROOT = os.path.dirname(os.path.dirname(os.path.abspath(__file__)))
sys.path.insert(0, ROOT)
REPO = os.environ.get('VERIF_REPO', '/repo')

RUNNER = r'''
import json, sys
sys.path.insert(0, %r)
from vx.run import run_template
from vx.rust_text import LostAnchor
try:
    r = run_template(sys.argv[1], rlimit=30, tag=sys.argv[2])
except LostAnchor as e:
    print(json.dumps(dict(outcome='lost', detail=str(e)[:300]))); sys.exit(0)
bad = []
tool = [i['message'][:200] for i in r['issues'] if i['kind'] == 'tool']
res = [i['message'][:200] for i in r['issues'] if i['kind'] == 'resource']
for i in r['issues']:
    if i['kind'] == 'verification' and not (i.get('region') or '').startswith(('vac', 'guard')) and 'finding' not in (i.get('region') or ''):
        bad.append((i.get('unit'), i['message'][:120], ((i.get('clause') or {}).get('text') or '')[:100]))
units = {e.get('unit'): e.get('emitted_fn') for e in r['info']['extraction']}
if tool or r['verus']['rc'] not in (0, 1):
    print(json.dumps(dict(outcome='tool', detail=(tool or [r['verus']['stderr'][:300]])[0])))
elif bad:
    print(json.dumps(dict(outcome='killed', detail=bad[:30])))
elif res:
    print(json.dumps(dict(outcome='resource', detail=res[0])))
else:
    print(json.dumps(dict(outcome='survived')))
''' % ROOT

OPS = [
    (r'(?<![<>=!\-+*/&|])<(?![<=])(?=\s)', '<='), (r'<=', '<'), (r'(?<![<>=!\-+*/&|])>(?![>=])(?=\s)', '>='), (r'>=', '>'),
    (r'==', '!='), (r'!=', '=='), (r'&&', '||'), (r'\|\|', '&&'),
    (r'\+ 1\b', '+ 2'), (r'\+ 1\b', ''), (r'- 1\b', ''), (r'- 1\b', '- 2'), (r'\+ 2\b', '+ 1'),
    (r'(?<=\s)\+(?=\s)', '-'), (r'(?<=\s)-(?=\s)', '+'), (r'(?<=\s)\*(?=\s)(?!mut)', '+'),
    (r'\+=', '-='), (r'-=', '+='), (r'\*=', '+='),
    (r'\b0\b(?!\.)', '1'), (r'\b1\b(?!\.)', '0'), (r'\btrue\b', 'false'), (r'\bfalse\b', 'true'),
    (r'\.is_some\(\)', '.is_none()'), (r'\.is_none\(\)', '.is_some()'), (r'(?<![\w!])!(?=[\w(])', ''),
    (r'\.rev\(\)', ''), (r'\.skip\(1\)', ''), (r'\.min\(', '.max('), (r'\.max\(', '.min('),
    (r'\.len\(\)(?! [-+])', '.len() - 1'), (r'\.len\(\)(?! [-+])', '.len() + 1'), (r'\?;', '.unwrap();'), (r'\bSome\((\w+)\)(?=[,;)])', 'None'),
    (r'(?<=\()&?(\w+), &?(\w+)(?=\))', None), (r'\breturn Ok\(false\)', 'return Ok(true)'), (r'\breturn Err\(', 'if false { return Err('),
]


def fn_mutants(text, rng, limit):
    """[(description, new_text)] for one function's source text."""
    from vx.rust_text import mask
    out = []
    lines = text.split('\n')
    msk = mask(text)     # comments and string literals blanked: mutate code only
    # operator replacements (skip the signature: start after the first '{')
    start = text.find('{')
    for rx, rp in OPS:
        for m in re.finditer(rx, msk):
            if m.start() < start:
                continue
            ln = text.count('\n', 0, m.start())
            if lines[ln].lstrip().startswith('//') or '!(' in lines[ln] and ('timer' in lines[ln] or 'format' in lines[ln]):
                continue
            if rp is None:      # swap two simple call arguments
                a1, a2 = m.group(1), m.group(2)
                if a1 == a2:
                    continue
                rp2 = m.group(0).replace(a1, '\x00').replace(a2, a1).replace('\x00', a2)
                out.append(('line +%d: swap args `%s`   | %s' % (ln, m.group(0), lines[ln].strip()[:90]), text[:m.start()] + rp2 + text[m.end():]))
                continue
            if rp.startswith('if false { return Err('):
                continue
            out.append(('line +%d: `%s` -> `%s`   | %s' % (ln, m.group(0), rp, lines[ln].strip()[:90]), text[:m.start()] + rp + text[m.end():]))
    # statement deletion: a one-line call statement `recv.method(args);` or `f(args)?;`
    off = 0
    for ln, l in enumerate(msk.split('\n')):
        st = l.strip()
        if off > start and re.match(r'^[\w.&*\[\]]+\.(absorb|push|extend|insert|resize|sort|dedup|remove)\w*\(.*\);$', st) or (off > start and re.match(r'^(Self::)?check_\w+\(.*\)\?;$', st)):
            out.append(('line +%d: delete   | %s' % (ln, st[:90]), text[:off] + ' ' * len(l) + text[off + len(l):]))
        off += len(l) + 1
    rng.shuffle(out)
    return out[:limit]


def main():
    args = sys.argv[1:]
    per_unit, jobs = 12, 8
    sel = []
    while args:
        a = args.pop(0)
        if a == '--max':
            per_unit = int(args.pop(0))
        elif a == '--jobs':
            jobs = int(args.pop(0))
        else:
            sel.append(a)
    from vx.assemble import assemble
    rng = random.Random(20260927)
    tasks = []
    for t in sorted(glob.glob(os.path.join(ROOT, 'units', '*.rs'))):
        if sel and not any(s in os.path.basename(t) for s in sel):
            continue
        _, _, info = assemble(t, ())
        for e in info['extraction']:
            if 'unit' not in e or not e.get('lines'):
                continue
            src = open(os.path.join(REPO, e['file'])).read().split('\n')
            a, b = e['lines']
            ftext = '\n'.join(src[a - 1:b])
            for desc, new in fn_mutants(ftext, rng, per_unit):
                tasks.append(dict(template=t, unit=e['unit'], file=e['file'], lines=(a, b), desc=desc, new=new))
    print('%d mutants over %d units' % (len(tasks), len({t['unit'] for t in tasks})), flush=True)
    runner = os.path.join(ROOT, 'build', '_automutate_runner.py')
    os.makedirs(os.path.dirname(runner), exist_ok=True)
    open(runner, 'w').write(RUNNER)

    baseline = {}
    for t in sorted({t['template'] for t in tasks}):
        out = subprocess.run([sys.executable, runner, t, '__am_base'], capture_output=True, text=True, env=dict(os.environ, VERIF_REPO=REPO))
        r = json.loads(out.stdout.strip().split('\n')[-1])
        baseline[t] = set(tuple(x) for x in r.get('detail', [])) if r['outcome'] == 'killed' else set()
        if r['outcome'] not in ('survived', 'killed'):
            print('baseline of %s is %s: %s' % (t, r['outcome'], r.get('detail')))

    def one(k_task):
        k, task = k_task
        d = tempfile.mkdtemp(prefix='vxam_', dir='/var/tmp')
        try:
            os.makedirs(os.path.join(d, 'poly-commit'))
            shutil.copytree(os.path.join(REPO, 'poly-commit', 'src'), os.path.join(d, 'poly-commit', 'src'))
            p = os.path.join(d, task['file'])
            src = open(p).read().split('\n')
            a, b = task['lines']
            src[a - 1:b] = task['new'].split('\n')
            open(p, 'w').write('\n'.join(src))
            out = subprocess.run([sys.executable, runner, task['template'], '__am%d' % k], capture_output=True, text=True,
                                 env=dict(os.environ, VERIF_REPO=d), timeout=900)
            try:
                r = json.loads(out.stdout.strip().split('\n')[-1])
            except Exception:
                r = dict(outcome='tool', detail=(out.stderr or out.stdout)[-300:])
            if r['outcome'] == 'killed':
                new = [x for x in r['detail'] if tuple(x) not in baseline[task['template']]]
                r = dict(outcome='killed', detail=new[:3]) if new else dict(outcome='survived')
        except subprocess.TimeoutExpired:
            r = dict(outcome='resource', detail='timeout')
        finally:
            shutil.rmtree(d, ignore_errors=True)
            for f in glob.glob(os.path.join(ROOT, 'build', '*__am%d.rs' % k)):
                os.remove(f)
        return dict(task, new=None, **r)
    results = []
    with cf.ThreadPoolExecutor(max_workers=jobs) as ex:
        for r in ex.map(one, enumerate(tasks)):
            results.append(r)
            if r['outcome'] in ('survived', 'lost', 'resource'):
                print('%-9s %-45s %s  %s' % (r['outcome'].upper(), r['unit'], r['desc'], (r.get('detail') or '')[:120] if r['outcome'] != 'survived' else ''), flush=True)
    cnt = {}
    for r in results:
        cnt[r['outcome']] = cnt.get(r['outcome'], 0) + 1
    print('summary:', cnt)
    json.dump(results, open(os.path.join(ROOT, 'build', 'automutate.json'), 'w'), indent=1)


if __name__ == '__main__':
    main()
