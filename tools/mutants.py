#!/usr/bin/env python3
"""Mutation self-test: apply each hand-written property-breaking edit from mutants.json to a scratch copy of
/repo/poly-commit/src (never to /repo), run the named check against the copy (VERIF_REPO) and report
whether it was rejected.   usage: tools/mutants.py [id-substring ...]"""
import json, os, shutil, subprocess, sys, tempfile
ROOT = os.path.dirname(os.path.dirname(os.path.abspath(__file__)))
REPO = os.environ.get('VERIF_REPO', '/repo')
muts = json.load(open(os.path.join(ROOT, 'mutants.json')))
sel = sys.argv[1:]
res = []
for m in muts:
    if sel and not any((s[1:] == m['id']) if s.startswith('=') else (s in m['id']) for s in sel):
        continue
    d = tempfile.mkdtemp(prefix='vxmut_')
    try:
        os.makedirs(os.path.join(d, 'poly-commit'))
        shutil.copytree(os.path.join(REPO, 'poly-commit', 'src'), os.path.join(d, 'poly-commit', 'src'))
        p = os.path.join(d, m['file'])
        s = open(p).read()
        if s.count(m['old']) != m.get('count', 1):
            print('%-40s SKIP (pattern occurs %d times)' % (m['id'], s.count(m['old'])))
            res.append((m['id'], 'skip'))
            continue
        s = s.replace(m['old'], m['new'])
        for a, b in m.get('also', []):
            s = s.replace(a, b)
        open(p, 'w').write(s)
        env = dict(os.environ, VERIF_REPO=d, VERIF_EVIDENCE_DIR=os.path.join(d, 'evidence'))
        out = subprocess.run([os.path.join(ROOT, 'check'), m['prop']], capture_output=True, text=True, env=env)
        verdict = {0: 'SURVIVED', 1: 'killed', 2: 'undecided'}.get(out.returncode, 'rc=%d' % out.returncode)
        if m.get('expect') == 'pass':   # a benign edit (rename / reordering): any alarm is a false alarm
            verdict = {0: 'killed', 1: 'FALSE-ALARM', 2: 'undecided(benign)'}.get(out.returncode, verdict)
            print('%-40s %-9s (benign edit: expected to verify)' % (m['id'], 'ok' if out.returncode == 0 else verdict))
            res.append((m['id'], verdict))
            continue
        first = [l for l in out.stdout.split('\n') if l.startswith(('VIOLATION', 'UNDECIDED'))][:1]
        print('%-40s %-9s %s' % (m['id'], verdict, first[0][:150] if first else ''))
        res.append((m['id'], verdict))
    finally:
        shutil.rmtree(d, ignore_errors=True)
k = sum(1 for _, v in res if v == 'killed')
print('killed %d / %d' % (k, len(res)))
sys.exit(0 if k == len(res) else 1)
