#!/usr/bin/env python3
"""Mutation self-test: apply each hand-written property-breaking edit from mutants.json to a scratch copy of
/repo/poly-commit/src (never to /repo), run the named check against the copy (VERIF_REPO, with its own build and
evidence directories) and report whether it was rejected.   usage: tools/mutants.py [-jN] [id-substring ...]"""
import json, os, shutil, subprocess, sys, tempfile
import concurrent.futures as cf
ROOT = os.path.dirname(os.path.dirname(os.path.abspath(__file__)))
REPO = os.environ.get('VERIF_REPO', '/repo')
muts = json.load(open(os.path.join(ROOT, 'mutants.json')))
if isinstance(muts, dict):
    muts = muts['mutants']
args = sys.argv[1:]
jobs = 4
for a in list(args):
    if a.startswith('-j'):
        jobs = int(a[2:] or 4); args.remove(a)
sel = args


def one(m):
    d = tempfile.mkdtemp(prefix='vxmut_', dir='/var/tmp')
    try:
        os.makedirs(os.path.join(d, 'poly-commit'))
        shutil.copytree(os.path.join(REPO, 'poly-commit', 'src'), os.path.join(d, 'poly-commit', 'src'))
        p = os.path.join(d, m['file'])
        s = open(p).read()
        if s.count(m['old']) != m.get('count', 1):
            return m['id'], 'skip', '%-40s SKIP (pattern occurs %d times)' % (m['id'], s.count(m['old']))
        s = s.replace(m['old'], m['new'])
        for a, b in m.get('also', []):
            s = s.replace(a, b)
        open(p, 'w').write(s)
        env = dict(os.environ, VERIF_REPO=d, VERIF_EVIDENCE_DIR=os.path.join(d, 'evidence'), VERIF_BUILD_DIR=os.path.join(d, 'build'), VERIF_JOBS='4')
        out = subprocess.run([os.path.join(ROOT, 'check'), m['prop']], capture_output=True, text=True, env=env)
        verdict = {0: 'SURVIVED', 1: 'killed', 2: 'undecided'}.get(out.returncode, 'rc=%d' % out.returncode)
        if m.get('expect') == 'pass':   # a benign edit (rename / reordering): any alarm is a false alarm
            verdict = {0: 'killed', 1: 'FALSE-ALARM', 2: 'undecided(benign)'}.get(out.returncode, verdict)
            return m['id'], verdict, '%-40s %-9s (benign edit: expected to verify)' % (m['id'], 'ok' if out.returncode == 0 else verdict)
        first = [l for l in out.stdout.split('\n') if l.startswith(('VIOLATION', 'UNDECIDED'))][:1]
        line = first[0][:150] if first else ''
        line = line.replace(os.path.join(d, 'build'), '<scratch>')
        return m['id'], verdict, '%-40s %-9s %s' % (m['id'], verdict, line)
    finally:
        shutil.rmtree(d, ignore_errors=True)


todo = [m for m in muts if not sel or any((s[1:] == m['id']) if s.startswith('=') else (s in m['id']) for s in sel)]
res = []
with cf.ThreadPoolExecutor(max_workers=jobs) as ex:
    for mid, verdict, line in ex.map(one, todo):
        print(line, flush=True)
        res.append((mid, verdict))
k = sum(1 for _, v in res if v == 'killed')
print('killed %d / %d' % (k, len(res)))
bad = [i for i, v in res if v != 'killed']
if bad:
    print('not killed: ' + ', '.join(bad))
sys.exit(0 if k == len(res) else 1)
