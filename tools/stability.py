#!/usr/bin/env python3
"""Proof-stability survey: verify every template under several file tags (the tag changes SMT symbol names, hence the
solver's search) and report, per function, the largest resource count seen.  Functions near the quick budget (rlimit 30,
about 90M units) are the ones to restructure.   usage: tools/stability.py [template ...]"""
import glob, os, sys
sys.path.insert(0, os.path.dirname(os.path.dirname(os.path.abspath(__file__))))
from vx.run import run_template
import concurrent.futures as cf
ROOT = os.path.dirname(os.path.dirname(os.path.abspath(__file__)))
tpls = sys.argv[1:] or sorted(glob.glob(os.path.join(ROOT, 'units', '*.rs')))
from vx.assemble import template_props
tags_extra = ['__S1', '__S2', '__S3']
def tags_for(t):
    # the file names the driver really uses are <template>__<property>[r1|r2]: survey exactly those, plus three neutral ones
    return ['__' + p for p in sorted(template_props(t))] + tags_extra
def one(a):
    t, tag = a
    try:
        r = run_template(t, rlimit=300, tag=tag)
    except Exception as e:
        return t, tag, {}, str(e)
    return t, tag, r['functions'], None
worst = {}
with cf.ThreadPoolExecutor(max_workers=8) as ex:
    for t, tag, fr, err in ex.map(one, [(t, g) for t in tpls for g in tags_for(t)]):
        if err:
            print('ERR', t, tag, err[:200]); continue
        for k, v in fr.items():
            if k.endswith('__vac') or 'guard' in k: continue
            key = (os.path.basename(t), k)
            w = worst.setdefault(key, [0, 0, True])
            w[0] = max(w[0], v['rlimit']); w[1] = max(w[1], v['time_us']); w[2] = w[2] and v['success']
for (t, k), (rl, us, ok) in sorted(worst.items(), key=lambda kv: -kv[1][0])[:25]:
    print('%-28s %-50s rlimit=%6.1fM  %6.2fs %s' % (t, k, rl / 1e6, us / 1e6, '' if ok else 'FAILED'))
