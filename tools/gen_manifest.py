#!/usr/bin/env python3
"""Writes MANIFEST.json from scope.json (claimed scope per property) and the units present."""
import glob, json, os, sys
ROOT = os.path.dirname(os.path.dirname(os.path.abspath(__file__)))
sys.path.insert(0, ROOT)
from vx.assemble import template_props
scope = json.load(open(os.path.join(ROOT, 'scope.json')))
served = {}
for t in sorted(glob.glob(os.path.join(ROOT, 'units', '*.rs'))):
    for p in template_props(t):
        served.setdefault(p, []).append(os.path.relpath(t, ROOT))
checks, na = [], []
for pid in ['C%02d' % i for i in range(1, 20)]:
    sc = scope.get(pid, {})
    if sc.get('claim') and pid in served:
        checks.append(dict(
            property_id=pid,
            quick_cmd='./check %s --tier quick' % pid,
            thorough_cmd='./check %s --tier thorough' % pid,
            evidence_file='evidence/%s.json' % pid,
            replay_cmd_template='./check %s --replay {path}' % pid,
            engine='vx',
            level_claimed=dict(category='proof', text=sc['level_text'], design_ref=sc.get('design_ref', 'DESIGN.md section 5 (%s)' % pid)),
            level_note=sc['level_note'],
            technique=sc.get('technique', 'contract-based deductive verification (Verus) of functions extracted mechanically from /repo on every run'),
        ))
    else:
        na.append(dict(property_id=pid, reason=sc.get('na_reason', 'no contract within reach decides this property (see DESIGN.md)')))
m = dict(
    version=1,
    setup_cmd='./setup.sh',
    hooks=dict(guard='kani', enable='no source change in /repo: Verus runs on text extracted from /repo/poly-commit/src on every run; Kani (when used) runs on a scratch copy with cfg(kani) set by cargo-kani', 
               baseline_off_cmd='cd /repo && cargo test --workspace --no-fail-fast --offline', source_commits=[], add_only=True),
    engines=[dict(name='vx', path='vx/', serves_properties=[c['property_id'] for c in checks],
                  kind_free_text='extractor + contract splicer + Verus 0.2026.09.13 runner/classifier; shim/ = assumed contracts of dependencies; spec/ = proved lemma library; units/ = contracts')],
    checks=checks,
    notes=scope.get('_notes', ''),
    not_applicable=na,
)
json.dump(m, open(os.path.join(ROOT, 'MANIFEST.json'), 'w'), indent=1)
print('claimed:', [c['property_id'] for c in checks]); print('not applicable:', [n['property_id'] for n in na])
