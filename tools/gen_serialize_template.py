#!/usr/bin/env python3
"""One-off generator for units/serialize.rs (the six hand-written CanonicalSerialize/Deserialize/Valid impls).
The output is a normal unit template and is committed; re-run only when a type is added."""
TYPES = [
 # (module, file, struct, scope suffix, serialized fields in declaration order, extra validity, prepared clauses, nwriter, nreader, closures)
 dict(mod='kzg10', file='poly-commit/src/kzg10/data_structures.rs', name='UniversalParams', gen='<E: Pairing>', tgen='UniversalParams<E>',
      fields=['powers_of_g', 'powers_of_gamma_g', 'h', 'beta_h', 'neg_powers_of_h'], valid=[], 
      prepared=['res->Ok_0.prepared_h@ == res->Ok_0.h@', 'res->Ok_0.prepared_beta_h@ == res->Ok_0.beta_h@']),
 dict(mod='kzg10', file='poly-commit/src/kzg10/data_structures.rs', name='Powers', gen="<'a, E: Pairing>", tgen="Powers<'a, E>",
      fields=['powers_of_g', 'powers_of_gamma_g'], valid=None, prepared=[], deser_rw=['//@rw 2 /Cow::Owned\\((\\w+)\\)/ => \\1']),
 dict(mod='kzg10', file='poly-commit/src/kzg10/data_structures.rs', name='VerifierKey', gen='<E: Pairing>', tgen='VerifierKey<E>',
      fields=['g', 'gamma_g', 'h', 'beta_h'], valid=[],
      prepared=['res->Ok_0.prepared_h@ == res->Ok_0.h@', 'res->Ok_0.prepared_beta_h@ == res->Ok_0.beta_h@']),
 dict(mod='sonic_pc', file='poly-commit/src/sonic_pc/data_structures.rs', name='VerifierKey', gen='<E: Pairing>', tgen='VerifierKey<E>',
      fields=['g', 'gamma_g', 'h', 'beta_h', 'degree_bounds_and_neg_powers_of_h', 'supported_degree', 'max_degree'],
      valid=['self.supported_degree <= self.max_degree'], validfields=['g', 'gamma_g', 'h', 'beta_h', 'degree_bounds_and_neg_powers_of_h'],
      prepared=['res->Ok_0.prepared_h@ == res->Ok_0.h@', 'res->Ok_0.prepared_beta_h@ == res->Ok_0.beta_h@']),
 dict(mod='pst13', file='poly-commit/src/marlin/marlin_pst13_pc/data_structures.rs', name='UniversalParams', gen='<E, P>', tgen='UniversalParams<E, P>',
      fields=['powers_of_g', 'gamma_g', 'powers_of_gamma_g', 'h', 'beta_h', 'num_vars', 'max_degree'], valid=[],
      prepared=['res->Ok_0.prepared_h@ == res->Ok_0.h@', 'res->Ok_0.prepared_beta_h@.len() == res->Ok_0.beta_h@.len()',
                'forall|i: int| 0 <= i < res->Ok_0.beta_h@.len() ==> (#[trigger] res->Ok_0.prepared_beta_h@[i])@ == res->Ok_0.beta_h@[i]@'], closure=True),
 dict(mod='pst13', file='poly-commit/src/marlin/marlin_pst13_pc/data_structures.rs', name='VerifierKey', gen='<E: Pairing>', tgen='VerifierKey<E>',
      fields=['g', 'gamma_g', 'h', 'beta_h', 'num_vars', 'supported_degree', 'max_degree'],
      valid=['self.num_vars != 0', 'self.supported_degree != 0', 'self.max_degree != 0', 'self.max_degree >= self.supported_degree'], validfields=['g', 'gamma_g', 'h', 'beta_h'],
      prepared=['res->Ok_0.prepared_h@ == res->Ok_0.h@', 'res->Ok_0.prepared_beta_h@.len() == res->Ok_0.beta_h@.len()',
                'forall|i: int| 0 <= i < res->Ok_0.beta_h@.len() ==> (#[trigger] res->Ok_0.prepared_beta_h@[i])@ == res->Ok_0.beta_h@[i]@'], closure=True),
]
out = []
w = out.append
w('// Hand-written CanonicalSerialize / CanonicalDeserialize / Valid implementations (C12).')
w('// (template generated once by tools/gen_serialize_template.py; the extracted bodies are the real ones)')
w('//@use core ops_gen std ser')
w("//@typemap /Cow<'a, \\[E::G1Affine\\]>/ => Vec<G1Affine>")
w('//@typemap /\\bP::Term\\b/ => Term')
w('//@typemap /Vec::<G2Affine>::/ => Vec::<G2Affine>::')
cur = None
for t in TYPES:
    if t['mod'] != cur:
        if cur is not None:
            w('}')
        cur = t['mod']
        w('pub mod %s {' % cur)
        w('    use super::*;')
    n = t['name']
    where = ''
    w('//@struct file=%s name=%s' % (t['file'], n))
    # oracle: canonical encoding = concatenation of the serialized fields in declaration order
    w('    // canonical encoding of %s::%s: the listed fields, in declaration order' % (cur, n))
    w('    pub open spec fn ser_%s(x: &%s, c: Compress) -> Seq<u8> {' % (n, n))
    w('        ' + ' + '.join('x.%s.ser(c)' % f for f in t['fields']))
    w('    }')
    vf = t.get('validfields', t['fields'])
    if t['valid'] is not None:
        w('    pub open spec fn valid_%s(x: &%s) -> bool {' % (n, n))
        w('        ' + ' && '.join(['x.%s.valid()' % f for f in vf] + [v.replace('self.', 'x.') for v in t['valid']]))
        w('    }')
    else:
        w('    pub open spec fn valid_%s(x: &%s) -> bool { true }' % (n, n))
    w('    impl %s {' % n)
    scope = lambda tr: '"impl%s %s for %s"' % (t['gen'], tr, t['tgen'])
    uid = '%s.%s' % (cur, n)
    k = len(t['fields'])
    w('//@fn id=%s.check file=%s scope=%s name=check props=C12' % (uid, t['file'], scope('Valid')))
    w('        pub fn check(&self) -> (res: Result<(), SerializationError>)')
    w('        ensures')
    w('            (res is Ok) == valid_%s(self),   // name=%s.check.iff_all_components_valid props=C12' % (n, uid))
    w('//@body')
    w('//@end')
    w('//@fn id=%s.serialize_with_mode file=%s scope=%s name=serialize_with_mode props=C12' % (uid, t['file'], scope('CanonicalSerialize')))
    w('        pub fn serialize_with_mode(&self, writer: &mut Sink, compress: Compress) -> (res: Result<(), SerializationError>)')
    w('        ensures')
    w('            res is Ok ==> final(writer).bytes@ =~= old(writer).bytes@ + ser_%s(self, compress),   // name=%s.serialize.writes_fields_in_order props=C12' % (n, uid))
    w('//@body')
    w('//@rw %d /&mut writer/ => &mut *writer' % k)
    w('//@end')
    w('//@fn id=%s.serialized_size file=%s scope=%s name=serialized_size props=C12' % (uid, t['file'], scope('CanonicalSerialize')))
    w('        pub fn serialized_size(&self, compress: Compress) -> (res: usize)')
    w('        requires')
    w('            ser_%s(self, compress).len() <= usize::MAX,' % n)
    w('        ensures')
    w('            res == ser_%s(self, compress).len(),   // name=%s.serialized_size.equals_bytes_written props=C12' % (n, uid))
    w('//@body')
    w('//@end')
    w('//@fn id=%s.deserialize_with_mode file=%s scope=%s name=deserialize_with_mode props=C12' % (uid, t['file'], scope('CanonicalDeserialize')))
    w('        pub fn deserialize_with_mode(reader: &mut Source, compress: Compress, validate: Validate) -> (res: Result<Self, SerializationError>)')
    w('        ensures')
    w('            res is Ok ==> old(reader).bytes@ =~= ser_%s(&res->Ok_0, compress) + final(reader).bytes@,   // name=%s.deserialize.consumes_one_encoding props=C12' % (n, uid))
    for i, pc in enumerate(t['prepared']):
        w('            res is Ok ==> (%s),   // name=%s.deserialize.prepared_elements_rebuilt_%d props=C12' % (pc, uid, i))
    w('            (res is Ok && validate == Validate::Yes) ==> valid_%s(&res->Ok_0),   // name=%s.deserialize.validates_when_asked props=C12' % (n, uid))
    w('//@body')
    w('//@rw %d /&mut reader/ => &mut *reader' % k)
    for rw in t.get('deser_rw', []):
        w(rw)
    if t.get('closure'):
        w('//@closure |x| => |x: &G2Affine| -> (p: G2Prepared) ensures p@ == x@')
    w('//@end')
    w('    }')
    # injectivity / round trip lemma at struct level
    w('//@lemma props=C12')
    w('    pub proof fn lemma_%s_roundtrip(x: %s, y: %s, c: Compress, rest: Seq<u8>, rest2: Seq<u8>)' % (n, n, n))
    w('        requires ser_%s(&x, c) + rest == ser_%s(&y, c) + rest2' % (n, n))
    w('        ensures ' + ', '.join('x.%s.ser(c) == y.%s.ser(c)' % (f, f) for f in t['fields']) + ', rest == rest2')
    w('    {')
    fs = t['fields']
    # a_i = ser(f_i..) + rest
    def tail(v, i, r):
        return ' + '.join(['%s.%s.ser(c)' % (v, f) for f in fs[i:]] + [r])
    w('        let a0 = ser_%s(&x, c) + rest; let b0 = ser_%s(&y, c) + rest2;' % (n, n))
    for i in range(len(fs)):
        nxt_a = tail('x', i + 1, 'rest'); nxt_b = tail('y', i + 1, 'rest2')
        w('        let a%d = %s; let b%d = %s;' % (i + 1, nxt_a, i + 1, nxt_b))
        w('        assert(a%d =~= x.%s.ser(c) + a%d); assert(b%d =~= y.%s.ser(c) + b%d);' % (i, fs[i], i + 1, i, fs[i], i + 1))
        w('        Canon::ser_injective(x.%s, y.%s, c, a%d, b%d);' % (fs[i], fs[i], i + 1, i + 1))
    w('    }')
if cur is not None:
    w('}')
open('/verif/units/serialize.rs', 'w').write('\n'.join(out) + '\n')
