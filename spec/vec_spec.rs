// ===== spec/vec_spec.rs =====
pub open spec fn pointwise_mul(a: Seq<FS>, b: Seq<FS>) -> Seq<FS> { Seq::new(min(a.len(), b.len()), |i: int| f_mul(a[i], b[i])) }
pub open spec fn ip(a: Seq<FS>, b: Seq<FS>) -> FS { fsum(pointwise_mul(a, b), min(a.len(), b.len())) }   // inner product <a, b> over zip(a, b)
