// ===== spec/marlin_acc_spec.rs : the Marlin verifier's challenge-weighted accumulation (shared by MarlinKZG10 and MarlinPST13) =====
// shift table of the verifier key as a partial map  bound -> beta^(max_degree - bound) G
pub open spec fn shift_of(vk: &VerifierKey, d: usize) -> Option<FS> {
    match vk.degree_bounds_and_shift_powers {
        Some(v) => if exists|i: int| 0 <= i < v@.len() && v@[i].0 == d { Some(v@[choose|i: int| 0 <= i < v@.len() && v@[i].0 == d].1@) } else { None },
        None => None,
    }
}
// C* = sum_i  xi_i * C_i  +  xi'_i * (S_i - v_i * shift(d_i))
pub open spec fn acc_c(cs: Seq<&LabeledCommitment<Commitment>>, vs: Seq<Fr>, vk: &VerifierKey, s: SS, k: nat) -> FS decreases k {
    if k == 0 { f_zero() } else {
        let j = (k - 1) as nat; let base = nsq(cs, j);
        let c0 = f_add(acc_c(cs, vs, vk, s, j), f_mul(cs[j as int].commitment.comm.0@, sp_chal(s, base)));
        match cs[j as int].degree_bound {
            Some(d) => f_add(c0, f_mul(f_sub(cs[j as int].commitment.shifted_comm->Some_0.0@, f_mul(shift_of(vk, d)->Some_0, vs[j as int]@)), sp_chal(s, base + 1))),
            None => c0,
        }
    }
}
// v* = sum_i xi_i * v_i
pub open spec fn acc_v(cs: Seq<&LabeledCommitment<Commitment>>, vs: Seq<Fr>, s: SS, k: nat) -> FS decreases k {
    if k == 0 { f_zero() } else {
        let j = (k - 1) as nat;
        f_add(acc_v(cs, vs, s, j), f_mul(vs[j as int]@, sp_chal(s, nsq(cs, j))))
    }
}
pub open spec fn bounds_supported(cs: Seq<&LabeledCommitment<Commitment>>, vk: &VerifierKey, k: nat) -> bool {
    forall|j: int| 0 <= j < k ==> ((#[trigger] cs[j]).degree_bound is Some ==> shift_of(vk, cs[j].degree_bound->Some_0) is Some)
}
// table sorted strictly by bound: what MarlinKZG10::trim establishes (sort + dedup), needed by the binary search
pub open spec fn shift_table_sorted(vk: &VerifierKey) -> bool {
    vk.degree_bounds_and_shift_powers is Some ==> forall|i: int, j: int| 0 <= i < j < vk.degree_bounds_and_shift_powers->Some_0@.len() ==>
        vk.degree_bounds_and_shift_powers->Some_0@[i].0 < vk.degree_bounds_and_shift_powers->Some_0@[j].0
}

// the accumulation when no commitment carries a degree bound (all of MarlinPST13): C* = sum_i xi_i * C_i, independent of any key
pub open spec fn acc_c0(cs: Seq<&LabeledCommitment<Commitment>>, s: SS, k: nat) -> FS decreases k {
    if k == 0 { f_zero() } else { f_add(acc_c0(cs, s, (k - 1) as nat), f_mul(cs[k - 1].commitment.comm.0@, sp_chal(s, nsq(cs, (k - 1) as nat)))) }
}
pub proof fn lemma_acc_c_no_bounds(cs: Seq<&LabeledCommitment<Commitment>>, vs: Seq<Fr>, vk: Option<&VerifierKey>, s: SS, k: nat)
    requires forall|j: int| 0 <= j < k ==> (#[trigger] cs[j]).degree_bound is None
    ensures acc_c(cs, vs, vk->Some_0, s, k) == acc_c0(cs, s, k)
    decreases k
{ if k > 0 { lemma_acc_c_no_bounds(cs, vs, vk, s, (k - 1) as nat); } }

// the accumulated value is linear in each claimed value, with the challenge of that position as coefficient
pub proof fn lemma_acc_v_position(cs: Seq<&LabeledCommitment<Commitment>>, vs: Seq<Fr>, vs2: Seq<Fr>, s: SS, k: nat, i: int)
    requires k <= vs.len(), k <= vs2.len(), 0 <= i, forall|j: int| 0 <= j < k && j != i ==> vs[j]@ == vs2[j]@
    ensures acc_v(cs, vs, s, k) == f_add(acc_v(cs, vs2, s, k), if i < k { f_mul(f_sub(vs[i]@, vs2[i]@), sp_chal(s, nsq(cs, i as nat))) } else { f_zero() })
    decreases k
{
    if k == 0 { ax_add_zero(f_zero()); }
    else {
        let j = (k - 1) as nat; let ji = j as int; let xi = sp_chal(s, nsq(cs, j));
        lemma_acc_v_position(cs, vs, vs2, s, j, i);
        let a = acc_v(cs, vs2, s, j);
        if ji == i {
            ax_add_zero(a);
            // (a + v2 xi) + (v - v2) xi == a + v xi
            let v = vs[ji]@; let v2 = vs2[ji]@;
            ax_mul_comm(f_sub(v, v2), xi); lemma_distrib_sub(xi, v, v2); ax_mul_comm(xi, v); ax_mul_comm(xi, v2);
            let p = f_mul(v, xi); let p2 = f_mul(v2, xi);
            ax_add_assoc(a, p2, f_sub(p, p2)); ax_add_comm(p, f_neg(p2)); ax_add_assoc(p2, f_neg(p2), p); ax_add_neg(p2); ax_add_comm(f_zero(), p); ax_add_zero(p);
        } else {
            let x = if i < ji { f_mul(f_sub(vs[i]@, vs2[i]@), sp_chal(s, nsq(cs, i as nat))) } else { f_zero() };
            let y = f_mul(vs2[ji]@, xi);
            ax_add_assoc(a, x, y); ax_add_comm(x, y); ax_add_assoc(a, y, x);
        }
    }
}
// C02 at one position: two value vectors that differ at position i only and have the same accumulated value agree at i (the challenge of that position is non-zero)
pub proof fn lemma_acc_v_unique_at(cs: Seq<&LabeledCommitment<Commitment>>, vs: Seq<Fr>, vs2: Seq<Fr>, s: SS, k: nat, i: int)
    requires k <= vs.len(), k <= vs2.len(), 0 <= i < k, forall|j: int| 0 <= j < k && j != i ==> vs[j]@ == vs2[j]@,
        acc_v(cs, vs, s, k) == acc_v(cs, vs2, s, k), sp_chal(s, nsq(cs, i as nat)) != f_zero()
    ensures vs[i]@ == vs2[i]@
{
    lemma_acc_v_position(cs, vs, vs2, s, k, i);
    let a = acc_v(cs, vs2, s, k); let d = f_mul(f_sub(vs[i]@, vs2[i]@), sp_chal(s, nsq(cs, i as nat)));
    // a == a + d  ==>  d == 0
    ax_add_zero(a); ax_add_comm(a, d); ax_add_comm(a, f_zero());
    lemma_add_cancel(d, f_zero(), a);
    ax_no_zero_div(f_sub(vs[i]@, vs2[i]@), sp_chal(s, nsq(cs, i as nat)));
    lemma_sub_zero_eq(vs[i]@, vs2[i]@);
}
