// ===== spec/hyrax_complete.rs : linear algebra behind Hyrax completeness (PROVED from the field axioms) =====
pub proof fn lemma_fsum_is_dot(a: Seq<FS>, b: Seq<FS>, k: nat)
    requires k <= a.len(), k <= b.len()
    ensures fsum(pointwise_mul(a, b), k) == dot(a, b, k)
    decreases k
{ if k > 0 { lemma_fsum_is_dot(a, b, (k - 1) as nat); } }
pub proof fn lemma_ip_is_dot(a: Seq<FS>, b: Seq<FS>) ensures ip(a, b) == dot(a, b, min(a.len(), b.len()))
{ lemma_fsum_is_dot(a, b, min(a.len(), b.len())); }
pub proof fn lemma_dot_comm(a: Seq<FS>, b: Seq<FS>, n: nat)
    requires n <= a.len(), n <= b.len()
    ensures dot(a, b, n) == dot(b, a, n)
    decreases n
{ if n > 0 { lemma_dot_comm(a, b, (n - 1) as nat); ax_mul_comm(a[n - 1], b[n - 1]); } }
// matrix T (rows x dim), row weights l, column bases key:   sum_i l_i * <key, T_i>  ==  <key, l*T>
pub open spec fn mcol(t: Seq<Seq<FS>>, j: int) -> Seq<FS> { Seq::new(t.len(), |i: int| t[i][j]) }
pub open spec fn rowdots(key: Seq<FS>, t: Seq<Seq<FS>>, dim: nat) -> Seq<FS> { Seq::new(t.len(), |i: int| dot(key, t[i], dim)) }
pub open spec fn ltn(l: Seq<FS>, t: Seq<Seq<FS>>, dim: nat, n: nat) -> Seq<FS> { Seq::new(dim, |j: int| dot(l, mcol(t, j), n)) }
pub proof fn lemma_rows_exchange(key: Seq<FS>, t: Seq<Seq<FS>>, l: Seq<FS>, dim: nat, n: nat)
    requires n <= t.len(), n <= l.len(), dim <= key.len(), forall|i: int| 0 <= i < t.len() ==> (#[trigger] t[i]).len() == dim
    ensures dot(rowdots(key, t, dim), l, n) == dot(key, ltn(l, t, dim, n), dim)
    decreases n
{
    if n == 0 {
        lemma_dot_all_zero_second(key, ltn(l, t, dim, 0), dim);
    } else {
        let m = (n - 1) as nat;
        lemma_rows_exchange(key, t, l, dim, m);
        let s = Seq::new(dim, |j: int| f_mul(l[n - 1], t[n - 1][j]));
        // ltn(n)[j] = ltn(m)[j] + l[n-1] * T[n-1][j]
        assert forall|j: int| 0 <= j < dim implies ltn(l, t, dim, n)[j] == f_add(ltn(l, t, dim, m)[j], s[j]) by { }
        lemma_dot_add(key, ltn(l, t, dim, m), s, ltn(l, t, dim, n), dim);
        lemma_dot_scale(key, t[n - 1], l[n - 1], s, dim);
        ax_mul_comm(rowdots(key, t, dim)[n - 1], l[n - 1]);
    }
}
pub proof fn lemma_dot_all_zero_second(a: Seq<FS>, s: Seq<FS>, n: nat)
    requires n <= a.len(), n <= s.len(), forall|i: int| 0 <= i < n ==> s[i] == f_zero()
    ensures dot(a, s, n) == f_zero()
    decreases n
{ if n > 0 { lemma_dot_all_zero_second(a, s, (n - 1) as nat); lemma_mul_zero(a[n - 1]); ax_add_zero(f_zero()); } }
// the two ring identities behind eq (13) and eq (14)
pub proof fn lemma_eq14_alg(g0: FS, h: FS, rd: FS, c: FS, eval: FS, reval: FS, rb: FS)
    ensures f_add(f_mul(g0, f_add(rd, f_mul(eval, c))), f_mul(h, f_add(f_mul(c, reval), rb))) == f_add(f_mul(f_add(f_mul(g0, eval), f_mul(h, reval)), c), f_add(f_mul(g0, rd), f_mul(h, rb)))
{
    ax_distrib(g0, rd, f_mul(eval, c)); ax_distrib(h, f_mul(c, reval), rb);
    ax_mul_assoc(g0, eval, c); ax_mul_comm(c, reval); ax_mul_assoc(h, reval, c);
    ax_mul_comm(f_add(f_mul(g0, eval), f_mul(h, reval)), c); ax_distrib(c, f_mul(g0, eval), f_mul(h, reval));
    ax_mul_comm(c, f_mul(g0, eval)); ax_mul_comm(c, f_mul(h, reval));
    let a = f_mul(g0, rd); let b = f_mul(f_mul(g0, eval), c); let x = f_mul(f_mul(h, reval), c); let y = f_mul(h, rb);
    assert(f_mul(g0, f_add(rd, f_mul(eval, c))) == f_add(a, b));
    assert(f_mul(h, f_add(f_mul(c, reval), rb)) == f_add(x, y));
    // (a + b) + (x + y) == (b + x) + (a + y)
    lemma_add_swap(a, b, x, y);       // (a+b)+(x+y) == (a+x)+(b+y)
    ax_add_comm(a, x); lemma_add_swap(x, a, b, y);   // (x+a)+(b+y) == (x+b)+(a+y)
    ax_add_comm(x, b);
}
pub proof fn lemma_eq13_alg(kd: FS, klt: FS, h: FS, c: FS, rlt: FS, rd: FS)
    ensures f_add(f_add(kd, f_mul(c, klt)), f_mul(h, f_add(f_mul(c, rlt), rd))) == f_add(f_mul(f_add(klt, f_mul(h, rlt)), c), f_add(kd, f_mul(h, rd)))
{
    ax_distrib(h, f_mul(c, rlt), rd); ax_mul_comm(c, rlt); ax_mul_assoc(h, rlt, c);
    ax_mul_comm(f_add(klt, f_mul(h, rlt)), c); ax_distrib(c, klt, f_mul(h, rlt)); ax_mul_comm(c, f_mul(h, rlt));
    let a = kd; let b = f_mul(c, klt); let x = f_mul(f_mul(h, rlt), c); let y = f_mul(h, rd);
    assert(f_mul(h, f_add(f_mul(c, rlt), rd)) == f_add(x, y));
    lemma_add_swap(a, b, x, y);
    ax_add_comm(a, x); lemma_add_swap(x, a, b, y);
    ax_add_comm(x, b);
}
