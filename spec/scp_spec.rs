// ===== spec/scp_spec.rs : PROVED -- the succinct check polynomial's product form equals its expanded coefficient vector =====
// sum_{j < 2^k} scp_coeffs(u)[j] * z^j == prod_{i=1..k} (1 + u_i z^(2^(k-i)))     (C16; no assumptions beyond the field axioms)
// succinct check polynomial h(X) = prod_{i=1..k} (1 + u_i X^(2^(k-i)))
pub open spec fn scp_eval(u: Seq<FS>, z: FS, j: nat) -> FS decreases j {
    if j == 0 { f_one() } else { f_mul(scp_eval(u, z, (j - 1) as nat), f_add(f_one(), f_mul(f_pow(z, vstd::arithmetic::power2::pow2((u.len() - j) as nat)), u[j - 1]))) }
}
// coefficient j of h(X) after the first m factors have been multiplied in (all coefficients start at one): the product of the
// u_i (i <= m) whose bit (k-i) of j is set;   scp_coeffs(u) = the expanded coefficient vector of h (what compute_coeffs returns)
pub open spec fn cbit(j: int, k: nat, i: nat) -> bool { (j / (vstd::arithmetic::power2::pow2((k - i) as nat) as int)) % 2 == 1 }
pub open spec fn cfn(u: Seq<FS>, k: nat, m: nat, j: int) -> FS decreases m {
    if m == 0 { f_one() } else { f_mul(cfn(u, k, (m - 1) as nat, j), if cbit(j, k, m) { u[m - 1] } else { f_one() }) }
}
#[verifier::opaque]
pub open spec fn scp_coeffs(u: Seq<FS>) -> Seq<FS> { Seq::new(vstd::arithmetic::power2::pow2(u.len()), |j: int| cfn(u, u.len(), u.len(), j)) }
pub proof fn lemma_pow_sq(z: FS, n: nat) ensures f_pow(f_mul(z, z), n) == f_pow(z, 2 * n) decreases n
{
    broadcast use ring_axioms;
    if n > 0 {
        lemma_pow_sq(z, (n - 1) as nat);
        let a = f_pow(z, (2 * n - 2) as nat);
        assert(f_pow(z, (2 * n - 1) as nat) == f_mul(a, z));
        assert(f_pow(z, 2 * n) == f_mul(f_mul(a, z), z));
        assert(f_pow(f_mul(z, z), n) == f_mul(a, f_mul(z, z)));
    }
}
// dropping the last challenge: the first k-1 factors of h_u(z) are h_{u'}(z^2)
pub proof fn lemma_scp_eval_drop(u: Seq<FS>, z: FS, j: nat)
    requires u.len() >= 1, j <= u.len() - 1
    ensures scp_eval(u, z, j) == scp_eval(u.take(u.len() - 1), f_mul(z, z), j)
    decreases j
{
    if j > 0 {
        let k = u.len(); let u1 = u.take(k - 1);
        lemma_scp_eval_drop(u, z, (j - 1) as nat);
        let e = (k - 1 - j) as nat;
        vstd::arithmetic::power2::lemma_pow2_unfold((k - j) as nat);
        assert(vstd::arithmetic::power2::pow2((k - j) as nat) == 2 * vstd::arithmetic::power2::pow2(e));
        lemma_pow_sq(z, vstd::arithmetic::power2::pow2(e));
        assert(u1[j - 1] == u[j - 1]);
        assert(u1.len() - j == e);
    }
}
pub proof fn lemma_cfn_drop(u: Seq<FS>, m: nat, j: int)
    requires u.len() >= 1, m <= u.len() - 1, j >= 0
    ensures cfn(u, u.len(), m, j) == cfn(u.take(u.len() - 1), (u.len() - 1) as nat, m, j / 2)
    decreases m
{
    if m > 0 {
        let k = u.len(); let u1 = u.take(k - 1);
        lemma_cfn_drop(u, (m - 1) as nat, j);
        let e = (k - 1 - m) as nat;
        vstd::arithmetic::power2::lemma_pow2_unfold((k - m) as nat);
        vstd::arithmetic::power2::lemma_pow2_pos(e);
        assert(vstd::arithmetic::power2::pow2((k - m) as nat) == 2 * vstd::arithmetic::power2::pow2(e));
        vstd::arithmetic::div_mod::lemma_div_denominator(j, 2, vstd::arithmetic::power2::pow2(e) as int);
        assert(cbit(j, k, m) == cbit(j / 2, (k - 1) as nat, m));
        assert(u1[m - 1] == u[m - 1]);
    }
}
// sum over pairs (2t, 2t+1)
pub proof fn lemma_peval_pairs(c: Seq<FS>, c1: Seq<FS>, z: FS, w: FS, n: nat)
    requires c.len() >= 2 * n, c1.len() >= n,
        forall|t: int| 0 <= t < n ==> c[2 * t] == #[trigger] c1[t] && c[2 * t + 1] == f_mul(c1[t], w)
    ensures peval(c, z, 2 * n) == f_mul(peval(c1, f_mul(z, z), n), f_add(f_one(), f_mul(z, w)))
    decreases n
{
    // (explicit axiom instances only: with the whole ring group broadcast this proof was unstable - it verified alone and hung after other queries)
    let zz = f_mul(z, z); let q = f_add(f_one(), f_mul(z, w));
    if n == 0 { lemma_mul_zero(q); ax_mul_comm(f_zero(), q); }
    else {
        let t = (n - 1) as nat; let ti = t as int;
        lemma_peval_pairs(c, c1, z, w, t);
        lemma_pow_sq(z, t);
        let p0 = peval(c1, zz, t); let zt = f_pow(zz, t); let a = f_mul(c1[t as int], zt); let zw = f_mul(z, w);
        assert(c[2 * ti] == c1[t as int] && c[2 * ti + 1] == f_mul(c1[t as int], w));
        assert(f_pow(z, 2 * t) == zt);
        assert(f_pow(z, (2 * t + 1) as nat) == f_mul(zt, z));
        assert(peval(c, z, (2 * t + 1) as nat) == f_add(peval(c, z, 2 * t), f_mul(c[2 * ti], f_pow(z, 2 * t))));
        assert(peval(c, z, 2 * n) == f_add(peval(c, z, (2 * t + 1) as nat), f_mul(c[2 * ti + 1], f_pow(z, (2 * t + 1) as nat))));
        // (c1[t] w)(zt z) = a (z w)
        assert(f_mul(f_mul(c1[t as int], w), f_mul(zt, z)) == f_mul(a, zw)) by {
            ax_mul_assoc(c1[t as int], w, f_mul(zt, z));        // (c w)(zt z) = c (w (zt z))
            ax_mul_comm(w, f_mul(zt, z));                        // w (zt z) = (zt z) w
            ax_mul_assoc(zt, z, w);                              // (zt z) w = zt (z w)
            ax_mul_assoc(c1[t as int], zt, zw);                  // (c zt)(z w) = c (zt (z w))
        }
        // a q = a + a (z w)
        ax_distrib(a, f_one(), zw); ax_mul_one(a);
        // (p0 + a) q = p0 q + a q
        ax_mul_comm(f_add(p0, a), q); ax_distrib(q, p0, a); ax_mul_comm(q, p0); ax_mul_comm(q, a);
        assert(peval(c1, zz, n) == f_add(p0, a));
        // (p0 q + a) + a (z w) = p0 q + (a + a (z w))
        ax_add_assoc(f_mul(p0, q), a, f_mul(a, zw));
        assert(peval(c, z, 2 * n) == f_add(f_add(f_mul(p0, q), a), f_mul(a, zw)));
    }
}
pub proof fn lemma_last_bit(k: nat, t: int)
    requires t >= 0
    ensures !cbit(2 * t, k, k), cbit(2 * t + 1, k, k), (2 * t) / 2 == t, (2 * t + 1) / 2 == t
{
    vstd::arithmetic::power2::lemma2_to64();
    assert(vstd::arithmetic::power2::pow2((k - k) as nat) == 1);
    assert((2 * t) / 1 == 2 * t && (2 * t + 1) / 1 == 2 * t + 1);
}
pub proof fn lemma_scp_coeffs_pairs(u: Seq<FS>)
    requires u.len() >= 1
    ensures ({ let k = u.len(); let c = scp_coeffs(u); let c1 = scp_coeffs(u.take(k - 1));
        c.len() == vstd::arithmetic::power2::pow2(k) && c1.len() == vstd::arithmetic::power2::pow2((k - 1) as nat) && c.len() == 2 * c1.len()
        && forall|t: int| 0 <= t < c1.len() ==> c[2 * t] == #[trigger] c1[t] && c[2 * t + 1] == f_mul(c1[t], u[k - 1]) })
{
    let k = u.len(); let c = scp_coeffs(u); let u1 = u.take(k - 1); let c1 = scp_coeffs(u1); let w = u[k - 1];
    reveal(scp_coeffs);
    vstd::arithmetic::power2::lemma_pow2_unfold(k);
    assert forall|t: int| 0 <= t < c1.len() implies c[2 * t] == #[trigger] c1[t] && c[2 * t + 1] == f_mul(c1[t], w) by {
        lemma_cfn_drop(u, (k - 1) as nat, 2 * t);
        lemma_cfn_drop(u, (k - 1) as nat, 2 * t + 1);
        lemma_last_bit(k, t);
        ax_mul_one(cfn(u, k, (k - 1) as nat, 2 * t));
        assert(c[2 * t] == cfn(u, k, k, 2 * t));
        assert(c[2 * t + 1] == cfn(u, k, k, 2 * t + 1));
        assert(c1[t] == cfn(u1, (k - 1) as nat, (k - 1) as nat, t));
    }
}
pub proof fn lemma_scp_agree(u: Seq<FS>, z: FS)
    ensures scp_coeffs(u).len() == vstd::arithmetic::power2::pow2(u.len()), peval(scp_coeffs(u), z, vstd::arithmetic::power2::pow2(u.len())) == scp_eval(u, z, u.len())
    decreases u.len()
{
    let k = u.len(); let c = scp_coeffs(u);
    vstd::arithmetic::power2::lemma2_to64();
    assert(c.len() == vstd::arithmetic::power2::pow2(k)) by { reveal(scp_coeffs); }
    if k == 0 {
        reveal(scp_coeffs);
        assert(peval(c, z, 1) == f_add(peval(c, z, 0), f_mul(c[0], f_pow(z, 0))));
        assert(c[0] == f_one());
        ax_mul_one(f_one()); ax_add_comm(f_zero(), f_one()); ax_add_zero(f_one());
    } else {
        let u1 = u.take(k - 1); let c1 = scp_coeffs(u1); let w = u[k - 1]; let n = vstd::arithmetic::power2::pow2((k - 1) as nat);
        lemma_scp_agree(u1, f_mul(z, z));
        lemma_scp_coeffs_pairs(u);
        lemma_peval_pairs(c, c1, z, w, n);
        lemma_scp_eval_drop(u, z, (k - 1) as nat);
        assert(f_pow(z, 1) == f_mul(f_pow(z, 0), z));
        assert(f_pow(z, 1) == z) by { ax_mul_comm(f_one(), z); ax_mul_one(z); }
        assert(vstd::arithmetic::power2::pow2((u.len() - k) as nat) == 1);
        assert(scp_eval(u, z, k) == f_mul(scp_eval(u, z, (k - 1) as nat), f_add(f_one(), f_mul(f_pow(z, 1), w))));
    }
}
