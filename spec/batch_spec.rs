// ===== spec/batch_spec.rs : what the default batch verifier computes: conjunction of per-point checks over the groups =====
// outcome of the batch after the first k groups (in point-label order): None = error, Some((all accepted so far, sponge state))
pub open spec fn brun(vk: &VK, m: Map<&String, &LabeledCommitment<Comm>>, ev: Map<(String, Pt), Fr>, gs: Seq<(String, (Pt, Set<String>))>, proofs: Seq<Proof>, s0: SS, k: nat) -> Option<(bool, SS)> decreases k {
    if k == 0 { Some((true, s0)) } else {
        match brun(vk, m, ev, gs, proofs, s0, (k - 1) as nat) {
            None => None,
            Some((b, s)) => {
                let g = gs[k - 1]; let ls = labels_seq(g.1.1);
                if !gather_ok(m, ev, g.1.0, ls, ls.len()) { None } else {
                    match chk_dec(vk, gather_c(m, ls), g.1.0, gather_v(ev, g.1.0, ls), proofs[k - 1], s) {
                        Dec::Error => None,
                        Dec::Accept => Some((b, chk_sponge(vk, gather_c(m, ls), g.1.0, gather_v(ev, g.1.0, ls), proofs[k - 1], s))),
                        Dec::Reject => Some((false, chk_sponge(vk, gather_c(m, ls), g.1.0, gather_v(ev, g.1.0, ls), proofs[k - 1], s))),
                    }
                }
            }
        }
    }
}
pub open spec fn batch_post(vk: &VK, cs: Seq<&LabeledCommitment<Comm>>, qs: Set<(String, (String, Pt))>, ev: Map<(String, Pt), Fr>, pv: Seq<Proof>, s0: SS, res: Result<bool, Error>, s1: SS) -> bool {
    exists|gs: Seq<(String, (Pt, Set<String>))>, m: Map<&String, &LabeledCommitment<Comm>>| #![trigger groups_of(qs, gs), cmap_ok(m, cs)]
        groups_of(qs, gs) && cmap_ok(m, cs) && gs.len() == pv.len()     // (a different number of proofs aborts)
        && (res is Err) == (brun(vk, m, ev, gs, pv, s0, gs.len()) is None)
        && (res is Ok ==> res->Ok_0 == brun(vk, m, ev, gs, pv, s0, gs.len())->Some_0.0 && s1 == brun(vk, m, ev, gs, pv, s0, gs.len())->Some_0.1)
}
pub proof fn lemma_brun_none(vk: &VK, m: Map<&String, &LabeledCommitment<Comm>>, ev: Map<(String, Pt), Fr>, gs: Seq<(String, (Pt, Set<String>))>, proofs: Seq<Proof>, s0: SS, k: nat, n: nat)
    requires k <= n, brun(vk, m, ev, gs, proofs, s0, k) is None
    ensures brun(vk, m, ev, gs, proofs, s0, n) is None
    decreases n
{ if k < n { lemma_brun_none(vk, m, ev, gs, proofs, s0, k, (n - 1) as nat); } }
