// ===== spec/lc_default_spec.rs : polynomial queries behind combination queries; pairing of the transmitted evaluation list with (polynomial, point) keys =====
pub open spec fn l_is_last(ls: Seq<&LinearCombination>, i: int) -> bool { 0 <= i < ls.len() && forall|j: int| i < j < ls.len() ==> (#[trigger] ls[j]).label != ls[i].label }
pub open spec fn lmap_ok(m: Map<&String, &LinearCombination>, ls: Seq<&LinearCombination>) -> bool {
    (forall|k: &String| m.dom().contains(k) == (exists|i: int| 0 <= i < ls.len() && (#[trigger] ls[i]).label == *k))
    && (forall|i: int| #[trigger] l_is_last(ls, i) ==> m[&ls[i].label] == ls[i])
}
// the polynomial queries behind the combination queries: (l, (point label, point)) for every query (lc, (point label, point)) of a known
// combination lc and every polynomial label l among its terms
pub open spec fn hit(m: Map<&String, &LinearCombination>, q: (String, (String, Pt)), j: int, e: (String, (String, Pt))) -> bool {
    q.1 == e.1 && m.dom().contains(&q.0) && 0 <= j < m[&q.0].terms@.len() && m[&q.0].terms@[j].1 == LCTerm::PolyLabel(e.0)
}
pub open spec fn pq_of(m: Map<&String, &LinearCombination>, qs: Set<(String, (String, Pt))>, e: (String, (String, Pt))) -> bool {
    exists|q: (String, (String, Pt)), j: int| qs.contains(q) && #[trigger] hit(m, q, j, e)
}
pub open spec fn pq_upto(m: Map<&String, &LinearCombination>, qseq: Seq<(String, (String, Pt))>, a: int, e: (String, (String, Pt))) -> bool {
    exists|x: int, j: int| 0 <= x < a && #[trigger] hit(m, qseq[x], j, e)
}
pub open spec fn pq_in(m: Map<&String, &LinearCombination>, q: (String, (String, Pt)), b: int, e: (String, (String, Pt))) -> bool {
    exists|j: int| 0 <= j < b && #[trigger] hit(m, q, j, e)
}
pub open spec fn is_pqs(m: Map<&String, &LinearCombination>, qs: Set<(String, (String, Pt))>, r: Set<(String, (String, Pt))>) -> bool { forall|e: (String, (String, Pt))| r.contains(e) == pq_of(m, qs, e) }
// ---- the pairing ----
pub open spec fn keyset(pqs: Set<(String, (String, Pt))>) -> Set<(String, Pt)> { pqs.map(|e: (String, (String, Pt))| (e.0, e.1.1)) }
pub open spec fn pm(ks: Seq<(String, Pt)>, vs: Seq<Fr>, n: nat) -> Map<(String, Pt), Fr> decreases n { if n == 0 { Map::empty() } else { pm(ks, vs, (n - 1) as nat).insert(ks[n - 1], vs[n - 1]) } }
pub open spec fn lmin(a: nat, b: nat) -> nat { if a <= b { a } else { b } }
// the k-th distinct (polynomial label, point) pair - whatever the number of point labels carrying that point - gets the k-th transmitted evaluation
pub open spec fn pevals_spec(pqs: Set<(String, (String, Pt))>, evals: Option<Vec<Fr>>) -> Map<(String, Pt), Fr> {
    let ks = kseq(keyset(pqs)); pm(ks, evals->Some_0@, lmin(ks.len(), evals->Some_0@.len()))
}
pub proof fn lemma_pm(ks: Seq<(String, Pt)>, vs: Seq<Fr>, n: nat)
    requires n <= ks.len(), n <= vs.len(), forall|i: int, j: int| 0 <= i < j < ks.len() ==> ks[i] != ks[j]
    ensures forall|k: (String, Pt)| pm(ks, vs, n).dom().contains(k) == (exists|i: int| 0 <= i < n && #[trigger] ks[i] == k),
            forall|i: int| 0 <= i < n ==> pm(ks, vs, n)[#[trigger] ks[i]] == vs[i]
    decreases n
{
    if n > 0 {
        lemma_pm(ks, vs, (n - 1) as nat);
        let m0 = pm(ks, vs, (n - 1) as nat);
        assert forall|k: (String, Pt)| pm(ks, vs, n).dom().contains(k) == (exists|i: int| 0 <= i < n && #[trigger] ks[i] == k) by {
            if k == ks[n - 1] { } else if m0.dom().contains(k) { let i = choose|i: int| 0 <= i < n - 1 && #[trigger] ks[i] == k; assert(ks[i] == k); }
            else { if exists|i: int| 0 <= i < n && #[trigger] ks[i] == k { let i = choose|i: int| 0 <= i < n && #[trigger] ks[i] == k; assert(i < n - 1); assert(ks[i] == k); } }
        }
        assert forall|i: int| 0 <= i < n implies pm(ks, vs, n)[#[trigger] ks[i]] == vs[i] by { if i < n - 1 { assert(ks[i] != ks[n - 1]); } }
    }
}
// two maps built from the same list (last combination per label wins) agree
pub proof fn lemma_last_lc(ls: Seq<&LinearCombination>, l: String, lo: int, n: int) -> (i: int)
    requires 0 <= lo < n <= ls.len(), ls[lo].label == l
    ensures lo <= i < n, ls[i].label == l, forall|j: int| i < j < n ==> (#[trigger] ls[j]).label != l
    decreases n - lo
{
    if forall|j: int| lo < j < n ==> (#[trigger] ls[j]).label != l { lo }
    else { let j = choose|j: int| lo < j < n && (#[trigger] ls[j]).label == l; lemma_last_lc(ls, l, j, n) }
}
pub proof fn lemma_lmap_unique(m1: Map<&String, &LinearCombination>, m2: Map<&String, &LinearCombination>, ls: Seq<&LinearCombination>)
    requires lmap_ok(m1, ls), lmap_ok(m2, ls)
    ensures forall|k: &String| m1.dom().contains(k) == m2.dom().contains(k), forall|k: &String| m1.dom().contains(k) ==> m1[k] == m2[k]
{
    assert forall|k: &String| m1.dom().contains(k) implies m1[k] == m2[k] by {
        let i0 = choose|i: int| 0 <= i < ls.len() && (#[trigger] ls[i]).label == *k;
        let i = lemma_last_lc(ls, *k, i0, ls.len() as int);
        assert(l_is_last(ls, i));
        assert(m1[&ls[i].label] == ls[i] && m2[&ls[i].label] == ls[i]);
    }
}
