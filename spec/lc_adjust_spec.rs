// ===== spec/lc_adjust_spec.rs : constants of linear combinations moved over to the claimed values (shared by the Marlin, Sonic and IPA check_combinations units) =====
// sum of the constant terms among the first k terms
pub open spec fn lc_const(ts: Seq<(Fr, LCTerm)>, k: nat) -> FS decreases k {
    if k == 0 { f_zero() } else { match ts[k - 1].1 { LCTerm::One => f_add(lc_const(ts, (k - 1) as nat), ts[k - 1].0@), LCTerm::PolyLabel(_) => lc_const(ts, (k - 1) as nat) } }
}
// what the first n combinations subtract from the claimed values of label l: the constants of every combination carrying that label
pub open spec fn adj(lcs: Seq<&LinearCombination>, l: String, n: nat) -> FS decreases n {
    if n == 0 { f_zero() } else if lcs[n - 1].label == l { f_add(adj(lcs, l, (n - 1) as nat), lc_const(lcs[n - 1].terms@, lcs[n - 1].terms@.len())) } else { adj(lcs, l, (n - 1) as nat) }
}
pub open spec fn tot(lcs: Seq<&LinearCombination>, l: String, n: nat, cur: String, part: FS) -> FS { if l == cur { f_add(adj(lcs, l, n), part) } else { adj(lcs, l, n) } }
pub open spec fn adj_ev(ev: Map<(String, Pt), Fr>, lcs: Seq<&LinearCombination>, n: nat) -> Map<(String, Pt), Fr> {
    Map::new(ev.dom(), |k: (String, Pt)| Fr::mk(f_sub(ev[k]@, adj(lcs, k.0, n))))
}
pub open spec fn ev_inv(cur_ev: Map<(String, Pt), Fr>, ev: Map<(String, Pt), Fr>, lcs: Seq<&LinearCombination>, n: nat, cur: String, part: FS) -> bool {
    (forall|k: (String, Pt)| cur_ev.dom().contains(k) == ev.dom().contains(k))
    && (forall|k: (String, Pt)| ev.dom().contains(k) ==> (#[trigger] cur_ev[k])@ == f_sub(ev[k]@, tot(lcs, k.0, n, cur, part)))
}
// (e - (a + p)) - c == e - (a + (p + c))
pub proof fn lemma_sub_step(e: FS, a: FS, p: FS, c: FS) ensures f_sub(f_sub(e, f_add(a, p)), c) == f_sub(e, f_add(a, f_add(p, c)))
{
    lemma_neg_add(f_add(a, p), c);
    ax_add_assoc(e, f_neg(f_add(a, p)), f_neg(c));
    ax_add_assoc(a, p, c);
}
