// ===== spec/marlin_srs_spec.rs : MarlinKZG10 keys in trapdoor form (shared by units/marlin_trim.rs and units/marlin_prover.rs) =====
// the shifted powers are the window of  g beta^i  that ends at max_degree; the verifier's shift power for bound d is  g beta^(max_degree - d)
pub open spec fn m_off(ck: &CommitterKey) -> nat { (ck.max_degree - ck.enforced_degree_bounds->Some_0@.last()) as nat }
pub open spec fn m_srs_ok(ck: &CommitterKey, vk: &VerifierKey, beta: FS) -> bool {
    geometric(g1views(ck.powers@), vk.vk.g@, beta, 0)
    && geometric(g1views(ck.powers_of_gamma_g@), vk.vk.gamma_g@, beta, 0)
    && vk.vk.beta_h@ == f_mul(vk.vk.h@, beta)
    && (ck.shifted_powers is Some ==> (ck.enforced_degree_bounds is Some && ck.enforced_degree_bounds->Some_0@.len() > 0
            && ck.enforced_degree_bounds->Some_0@.last() <= ck.max_degree
            && geometric(g1views(ck.shifted_powers->Some_0@), vk.vk.g@, beta, m_off(ck))))
    && (vk.degree_bounds_and_shift_powers is Some ==> (forall|i: int| 0 <= i < vk.degree_bounds_and_shift_powers->Some_0@.len() ==>
            (#[trigger] vk.degree_bounds_and_shift_powers->Some_0@[i]).0 <= ck.max_degree
            && vk.degree_bounds_and_shift_powers->Some_0@[i].1@ == f_mul(vk.vk.g@, f_pow(beta, (ck.max_degree - vk.degree_bounds_and_shift_powers->Some_0@[i].0) as nat))))
}
