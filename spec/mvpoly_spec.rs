// ===== spec/mvpoly_spec.rs : sparse multivariate polynomials as lists of (coefficient, monomial); monomial = list of (variable, power) =====
// evaluation under an assignment x: variable index -> field element.  Everything here is PROVED from the field axioms.
pub type Asg = spec_fn(int) -> FS;
pub open spec fn te(t: Seq<(usize, usize)>, x: Asg) -> FS decreases t.len() {
    if t.len() == 0 { f_one() } else { f_mul(te(t.drop_last(), x), f_pow(x(t.last().0 as int), t.last().1 as nat)) }
}
pub open spec fn mve(ts: Seq<(Fr, Term)>, x: Asg) -> FS decreases ts.len() {
    if ts.len() == 0 { f_zero() } else { f_add(mve(ts.drop_last(), x), f_mul(ts.last().0@, te(ts.last().1.v@, x))) }
}
// a monomial in normal form: variables strictly increasing, powers >= 1
pub open spec fn term_wf(t: Seq<(usize, usize)>) -> bool {
    (forall|a: int, b: int| 0 <= a < b < t.len() ==> (#[trigger] t[a]).0 < (#[trigger] t[b]).0) && (forall|a: int| 0 <= a < t.len() ==> (#[trigger] t[a]).1 >= 1)
}
// all variables of the monomial lie in [lo, hi)
pub open spec fn term_vars_in(t: Seq<(usize, usize)>, lo: int, hi: int) -> bool { forall|a: int| 0 <= a < t.len() ==> lo <= (#[trigger] t[a]).0 < hi }
pub open spec fn terms_ok(ts: Seq<(Fr, Term)>, lo: int, hi: int) -> bool { forall|k: int| 0 <= k < ts.len() ==> term_wf((#[trigger] ts[k]).1.v@) && term_vars_in(ts[k].1.v@, lo, hi) }

pub proof fn lemma_mve_push(ts: Seq<(Fr, Term)>, c: Fr, t: Term, x: Asg)
    ensures mve(ts.push((c, t)), x) == f_add(mve(ts, x), f_mul(c@, te(t.v@, x)))
{ assert(ts.push((c, t)).drop_last() =~= ts); }
// a * (b * c) == b * (a * c)
pub proof fn lemma_mul_lcomm(a: FS, b: FS, c: FS) ensures f_mul(a, f_mul(b, c)) == f_mul(b, f_mul(a, c))
{ ax_mul_assoc(a, b, c); ax_mul_comm(a, b); ax_mul_assoc(b, a, c); }
// (a * b) * c == (a * c) * b
pub proof fn lemma_mul_rcomm(a: FS, b: FS, c: FS) ensures f_mul(f_mul(a, b), c) == f_mul(f_mul(a, c), b)
{ ax_mul_assoc(a, b, c); ax_mul_comm(b, c); ax_mul_assoc(a, c, b); }
// te(t) = te(t without entry idx) * x_var^pow
pub proof fn lemma_te_split(t: Seq<(usize, usize)>, idx: int, x: Asg)
    requires 0 <= idx < t.len()
    ensures te(t, x) == f_mul(te(t.remove(idx), x), f_pow(x(t[idx].0 as int), t[idx].1 as nat))
    decreases t.len()
{
    if idx == t.len() - 1 {
        assert(t.remove(idx) =~= t.drop_last());
    } else {
        let d = t.drop_last();
        lemma_te_split(d, idx, x);
        assert(t.remove(idx).drop_last() =~= d.remove(idx));
        assert(t.remove(idx).last() == t.last());
        let a = te(d.remove(idx), x); let pi = f_pow(x(t[idx].0 as int), t[idx].1 as nat); let pl = f_pow(x(t.last().0 as int), t.last().1 as nat);
        assert(te(t, x) == f_mul(f_mul(a, pi), pl));
        assert(te(t.remove(idx), x) == f_mul(a, pl));
        lemma_mul_rcomm(a, pi, pl);
    }
}
// a monomial without variables evaluates to one
pub proof fn lemma_te_empty(t: Seq<(usize, usize)>, x: Asg) requires t.len() == 0 ensures te(t, x) == f_one() {}
// terms whose monomials have no variables: evaluation does not depend on the assignment
pub proof fn lemma_mve_const(ts: Seq<(Fr, Term)>, x: Asg, y: Asg)
    requires forall|k: int| 0 <= k < ts.len() ==> (#[trigger] ts[k]).1.v@.len() == 0
    ensures mve(ts, x) == mve(ts, y)
    decreases ts.len()
{
    if ts.len() > 0 { lemma_mve_const(ts.drop_last(), x, y); assert(ts.last() == ts[ts.len() - 1]); }
}
// one step of dividing  c * m * X^e  by (X - z):   c*(m*(X^(e-1)*X)) == (X - z)*(c*(m*X^(e-1))) + (c*z)*(m*X^(e-1))
pub proof fn lemma_div_step(c: FS, m: FS, p: FS, xv: FS, z: FS)
    ensures f_mul(c, f_mul(m, f_mul(p, xv))) == f_add(f_mul(f_sub(xv, z), f_mul(c, f_mul(m, p))), f_mul(f_mul(c, z), f_mul(m, p)))
{
    let q = f_mul(m, p);
    // lhs = c * (q * xv) = xv * (c*q)
    ax_mul_assoc(m, p, xv);
    assert(f_mul(c, f_mul(m, f_mul(p, xv))) == f_mul(c, f_mul(q, xv)));
    ax_mul_comm(q, xv); lemma_mul_lcomm(c, xv, q);
    assert(f_mul(c, f_mul(q, xv)) == f_mul(xv, f_mul(c, q)));
    // (xv - z) * (c q) = xv (c q) - z (c q)
    lemma_distrib_sub(f_mul(c, q), xv, z);
    assert(f_mul(f_sub(xv, z), f_mul(c, q)) == f_sub(f_mul(xv, f_mul(c, q)), f_mul(z, f_mul(c, q))));
    // (c z) q = z (c q)
    ax_mul_assoc(c, z, q); lemma_mul_lcomm(c, z, q);
    assert(f_mul(f_mul(c, z), q) == f_mul(z, f_mul(c, q)));
    let a = f_mul(xv, f_mul(c, q)); let b = f_mul(z, f_mul(c, q));
    // (a - b) + b == a
    ax_add_assoc(a, f_neg(b), b); ax_add_comm(f_neg(b), b); ax_add_neg(b); ax_add_zero(a);
    assert(f_add(f_sub(a, b), b) == a);
}
// ---- pure field identities used by the division proof (explicit AC steps; no broadcast) ----
// (a + b) + c == (a + c) + b
pub proof fn lemma_add_rcomm(a: FS, b: FS, c: FS) ensures f_add(f_add(a, b), c) == f_add(f_add(a, c), b)
{ ax_add_assoc(a, b, c); ax_add_comm(b, c); ax_add_assoc(a, c, b); }
// one round of the inner while loop
pub proof fn lemma_w_step(lhs: FS, d: FS, q: FS, r: FS, kl: FS, coeff: FS, rest: FS, pw: FS, xi: FS, z: FS)
    requires
        d == f_sub(xi, z),
        lhs == f_add(f_add(f_add(f_mul(d, q), r), kl), f_mul(coeff, f_mul(rest, f_mul(pw, xi)))),
    ensures
        lhs == f_add(f_add(f_add(f_mul(d, f_add(q, f_mul(coeff, f_mul(rest, pw)))), r), kl), f_mul(f_mul(coeff, z), f_mul(rest, pw))),
{
    let t = f_mul(coeff, f_mul(rest, pw));          // the new quotient term
    let y = f_mul(f_mul(coeff, z), f_mul(rest, pw)); // the new running remainder
    lemma_div_step(coeff, rest, pw, xi, z);
    assert(f_mul(coeff, f_mul(rest, f_mul(pw, xi))) == f_add(f_mul(d, t), y));
    ax_distrib(d, q, t);
    let a = f_mul(d, q); let b = f_mul(d, t);
    // ((a + r) + kl) + (b + y) == (((a + b) + r) + kl) + y
    ax_add_assoc(f_add(f_add(a, r), kl), b, y);
    assert(f_add(f_add(f_add(a, r), kl), f_add(b, y)) == f_add(f_add(f_add(f_add(a, r), kl), b), y));
    lemma_add_rcomm(f_add(a, r), kl, b);
    lemma_add_rcomm(a, r, b);
    assert(f_add(f_add(f_add(a, r), kl), b) == f_add(f_add(f_add(a, b), r), kl));
}
// leaving the while loop: the variable has power one
pub proof fn lemma_w_finish(lhs: FS, d: FS, q: FS, r: FS, kl: FS, coeff: FS, rest: FS, xi: FS, z: FS)
    requires
        d == f_sub(xi, z),
        lhs == f_add(f_add(f_add(f_mul(d, q), r), kl), f_mul(coeff, f_mul(rest, f_mul(f_one(), xi)))),
    ensures
        lhs == f_add(f_add(f_mul(d, f_add(q, f_mul(coeff, rest))), f_add(r, f_mul(f_mul(z, coeff), rest))), kl),
{
    lemma_w_step(lhs, d, q, r, kl, coeff, rest, f_one(), xi, z);
    ax_mul_one(rest); ax_mul_comm(coeff, z);
    let a = f_mul(d, f_add(q, f_mul(coeff, rest))); let y = f_mul(f_mul(z, coeff), rest);
    assert(lhs == f_add(f_add(f_add(a, r), kl), y));
    lemma_add_rcomm(f_add(a, r), kl, y);
    ax_add_assoc(a, r, y);
}
// a term that does not contain the variable goes to the remainder
pub proof fn lemma_to_remainder(lhs0: FS, a: FS, r: FS, kl: FS, y: FS)
    requires lhs0 == f_add(f_add(a, r), kl)
    ensures f_add(lhs0, y) == f_add(f_add(a, f_add(r, y)), kl)
{ lemma_add_rcomm(f_add(a, r), kl, y); ax_add_assoc(a, r, y); }
// a constant term is dropped (remembered in kl)
pub proof fn lemma_to_const(lhs0: FS, a: FS, r: FS, kl: FS, c: FS)
    requires lhs0 == f_add(f_add(a, r), kl)
    ensures f_add(lhs0, f_mul(c, f_one())) == f_add(f_add(a, r), f_add(kl, c))
{ ax_mul_one(c); ax_add_assoc(f_add(a, r), kl, c); }
// end of one round of the outer loop
pub proof fn lemma_round(pv: FS, s: FS, cur: FS, k: FS, dq: FS, r: FS, kl: FS)
    requires pv == f_add(f_add(s, cur), k), cur == f_add(f_add(dq, r), kl)
    ensures pv == f_add(f_add(f_add(s, dq), r), f_add(k, kl))
{
    // (s + ((dq + r) + kl)) + k
    ax_add_assoc(s, f_add(dq, r), kl);
    ax_add_assoc(s, dq, r);
    assert(f_add(s, f_add(f_add(dq, r), kl)) == f_add(f_add(f_add(s, dq), r), kl));
    ax_add_assoc(f_add(f_add(s, dq), r), kl, k); ax_add_comm(kl, k);
}
// p(x) = S + C + K and p(z) = 0 + C + K  ==>  p(x) - p(z) = S
pub proof fn lemma_final_sub(px: FS, pz: FS, s: FS, c: FS, k: FS)
    requires px == f_add(f_add(s, c), k), pz == f_add(f_add(f_zero(), c), k)
    ensures f_sub(px, pz) == s
{
    ax_add_comm(f_zero(), c); ax_add_zero(c);
    let ck = f_add(c, k);
    ax_add_assoc(s, c, k);
    assert(px == f_add(s, ck)); assert(pz == ck);
    ax_add_assoc(s, ck, f_neg(ck)); ax_add_neg(ck); ax_add_zero(s);
}
// the point as an assignment
pub open spec fn zf(point: Seq<Fr>) -> Asg { |j: int| if 0 <= j < point.len() { point[j]@ } else { f_zero() } }
// sum_{j<k} (x_j - z_j) * w_j(x)
pub open spec fn qsum(qs: Seq<MvPoly>, x: Asg, z: Asg, k: nat) -> FS decreases k {
    if k == 0 { f_zero() } else { f_add(qsum(qs, x, z, (k - 1) as nat), f_mul(f_sub(x(k - 1), z(k - 1)), mve(qs[k - 1].terms@, x))) }
}
pub proof fn lemma_qsum_prefix(q1: Seq<MvPoly>, q2: Seq<MvPoly>, x: Asg, z: Asg, k: nat)
    requires k <= q1.len(), k <= q2.len(), forall|j: int| 0 <= j < k ==> q1[j] == q2[j]
    ensures qsum(q1, x, z, k) == qsum(q2, x, z, k)
    decreases k
{ if k > 0 { lemma_qsum_prefix(q1, q2, x, z, (k - 1) as nat); } }
pub proof fn lemma_qsum_zero_polys(qs: Seq<MvPoly>, x: Asg, z: Asg, k: nat)
    requires k <= qs.len(), forall|j: int| 0 <= j < k ==> (#[trigger] qs[j]).terms@.len() == 0
    ensures qsum(qs, x, z, k) == f_zero()
    decreases k
{ if k > 0 { lemma_qsum_zero_polys(qs, x, z, (k - 1) as nat); lemma_mul_zero(f_sub(x(k - 1), z(k - 1))); ax_add_zero(f_zero()); } }
pub proof fn lemma_qsum_at_z(qs: Seq<MvPoly>, z: Asg, k: nat)
    requires k <= qs.len()
    ensures qsum(qs, z, z, k) == f_zero()
    decreases k
{ if k > 0 { lemma_qsum_at_z(qs, z, (k - 1) as nat); ax_add_neg(z(k - 1)); lemma_mul_zero(mve(qs[k - 1].terms@, z)); ax_add_zero(f_zero()); } }
