// ===== spec/ring.rs : PROVED consequences of the field axioms (no assumptions here) =====
pub proof fn lemma_add_cancel(a: FS, b: FS, c: FS)
    requires f_add(a, c) == f_add(b, c)
    ensures a == b
{
    broadcast use ring_axioms;
    assert(f_add(f_add(a, c), f_neg(c)) == a);
    assert(f_add(f_add(b, c), f_neg(c)) == b);
}
pub proof fn lemma_mul_zero(a: FS)
    ensures f_mul(a, f_zero()) == f_zero(), f_mul(f_zero(), a) == f_zero()
{
    broadcast use ring_axioms;
    let x = f_mul(a, f_zero());
    assert(f_add(f_zero(), f_zero()) == f_zero());
    assert(f_mul(a, f_add(f_zero(), f_zero())) == f_add(x, x));
    assert(f_add(x, x) == f_add(f_zero(), x));
    lemma_add_cancel(x, f_zero(), x);
}
pub proof fn lemma_neg_unique(a: FS, b: FS)
    requires f_add(a, b) == f_zero()
    ensures b == f_neg(a)
{
    broadcast use ring_axioms;
    assert(f_add(b, a) == f_add(f_neg(a), a));
    lemma_add_cancel(b, f_neg(a), a);
}
pub proof fn lemma_neg_neg(a: FS) ensures f_neg(f_neg(a)) == a
{ broadcast use ring_axioms; lemma_neg_unique(f_neg(a), a); }
pub proof fn lemma_neg_zero() ensures f_neg(f_zero()) == f_zero()
{ broadcast use ring_axioms; lemma_neg_unique(f_zero(), f_zero()); }
pub proof fn lemma_neg_add(a: FS, b: FS) ensures f_neg(f_add(a, b)) == f_add(f_neg(a), f_neg(b))
{
    broadcast use ring_axioms;
    assert(f_add(f_add(a, b), f_add(f_neg(a), f_neg(b))) == f_add(f_add(a, f_neg(a)), f_add(b, f_neg(b)))) by {
        assert(f_add(f_add(a, b), f_add(f_neg(a), f_neg(b))) == f_add(a, f_add(b, f_add(f_neg(a), f_neg(b)))));
        assert(f_add(b, f_add(f_neg(a), f_neg(b))) == f_add(f_neg(a), f_add(b, f_neg(b)))) by {
            assert(f_add(b, f_add(f_neg(a), f_neg(b))) == f_add(f_add(b, f_neg(a)), f_neg(b)));
            assert(f_add(b, f_neg(a)) == f_add(f_neg(a), b));
        }
    }
    lemma_neg_unique(f_add(a, b), f_add(f_neg(a), f_neg(b)));
}
pub proof fn lemma_neg_mul(a: FS, b: FS) ensures f_mul(f_neg(a), b) == f_neg(f_mul(a, b)), f_mul(a, f_neg(b)) == f_neg(f_mul(a, b))
{
    broadcast use ring_axioms;
    lemma_mul_zero(b); lemma_mul_zero(a);
    assert(f_add(f_mul(b, a), f_mul(b, f_neg(a))) == f_mul(b, f_add(a, f_neg(a))));
    lemma_neg_unique(f_mul(a, b), f_mul(f_neg(a), b));
    assert(f_add(f_mul(a, b), f_mul(a, f_neg(b))) == f_mul(a, f_add(b, f_neg(b))));
    lemma_neg_unique(f_mul(a, b), f_mul(a, f_neg(b)));
}
pub proof fn lemma_sub_self(a: FS) ensures f_sub(a, a) == f_zero() { broadcast use ring_axioms; }
pub proof fn lemma_sub_zero_eq(a: FS, b: FS) requires f_sub(a, b) == f_zero() ensures a == b
{ broadcast use ring_axioms; assert(f_add(a, f_neg(b)) == f_add(b, f_neg(b))); lemma_add_cancel(a, b, f_neg(b)); }
pub proof fn lemma_distrib_sub(a: FS, b: FS, c: FS) ensures f_mul(a, f_sub(b, c)) == f_sub(f_mul(a, b), f_mul(a, c)), f_mul(f_sub(b, c), a) == f_sub(f_mul(b, a), f_mul(c, a))
{ broadcast use ring_axioms; lemma_neg_mul(a, c); lemma_neg_mul(c, a); }
// (a + b) + (c + d) == (a + c) + (b + d)
pub proof fn lemma_add_swap(a: FS, b: FS, c: FS, d: FS) ensures f_add(f_add(a, b), f_add(c, d)) == f_add(f_add(a, c), f_add(b, d))
{
    broadcast use ring_axioms;
    assert(f_add(f_add(a, b), f_add(c, d)) == f_add(a, f_add(b, f_add(c, d))));
    assert(f_add(b, f_add(c, d)) == f_add(c, f_add(b, d))) by {
        assert(f_add(b, f_add(c, d)) == f_add(f_add(b, c), d));
        assert(f_add(b, c) == f_add(c, b));
    }
}
pub proof fn lemma_mul_cancel(a: FS, b: FS, c: FS)
    requires f_mul(a, c) == f_mul(b, c), c != f_zero()
    ensures a == b
{
    broadcast use ring_axioms;
    lemma_distrib_sub(c, a, b);
    assert(f_mul(c, f_sub(a, b)) == f_sub(f_mul(c, a), f_mul(c, b)));
    lemma_sub_self(f_mul(c, a));
    ax_no_zero_div(c, f_sub(a, b));
    lemma_sub_zero_eq(a, b);
}

// a - x == a - y ==> x == y;   a - k == b - k ==> a == b
pub proof fn lemma_sub_cancel_left(a: FS, x: FS, y: FS)
    requires f_sub(a, x) == f_sub(a, y)
    ensures x == y
{
    broadcast use ring_axioms;
    assert(f_add(f_neg(x), a) == f_add(f_neg(y), a));
    lemma_add_cancel(f_neg(x), f_neg(y), a);
    lemma_neg_neg(x); lemma_neg_neg(y);
}
pub proof fn lemma_sub_cancel_right(a: FS, b: FS, k: FS)
    requires f_sub(a, k) == f_sub(b, k)
    ensures a == b
{ lemma_add_cancel(a, b, f_neg(k)); }

// ---------- dot / msm ----------
pub proof fn lemma_dot_ext(a: Seq<FS>, a2: Seq<FS>, s: Seq<FS>, s2: Seq<FS>, n: nat)
    requires n <= a.len(), n <= a2.len(), n <= s.len(), n <= s2.len(),
             forall|i: int| 0 <= i < n ==> a[i] == a2[i], forall|i: int| 0 <= i < n ==> s[i] == s2[i]
    ensures dot(a, s, n) == dot(a2, s2, n)
    decreases n
{ if n > 0 { lemma_dot_ext(a, a2, s, s2, (n - 1) as nat); } }
pub proof fn lemma_dot_all_zero(a: Seq<FS>, s: Seq<FS>, n: nat)
    requires n <= a.len(), n <= s.len(), forall|i: int| 0 <= i < n ==> s[i] == f_zero()
    ensures dot(a, s, n) == f_zero()
    decreases n
{ broadcast use ring_axioms; if n > 0 { lemma_dot_all_zero(a, s, (n - 1) as nat); lemma_mul_zero(a[n - 1]); } }
// skipping k leading zero scalars (and the k first bases) does not change the sum
pub proof fn lemma_dot_zero_prefix(a: Seq<FS>, s: Seq<FS>, n: nat, k: nat)
    requires k <= n, n <= a.len(), n <= s.len(), forall|i: int| 0 <= i < k ==> s[i] == f_zero()
    ensures dot(a.subrange(k as int, a.len() as int), s.subrange(k as int, n as int), (n - k) as nat) == dot(a, s, n)
    decreases n
{
    broadcast use ring_axioms;
    let a2 = a.subrange(k as int, a.len() as int);
    if n == k {
        lemma_dot_all_zero(a, s, n);
    } else {
        lemma_dot_zero_prefix(a, s, (n - 1) as nat, k);
        let s2 = s.subrange(k as int, n as int);
        let s3 = s.subrange(k as int, (n - 1) as int);
        lemma_dot_ext(a2, a2, s2, s3, (n - 1 - k) as nat);
        assert(a2[n - k - 1] == a[n - 1]);
        assert(s2[n - k - 1] == s[n - 1]);
    }
}
// dot over a window of the bases:  dot(a[k..], s, n) = sum s[i]*a[k+i]
pub proof fn lemma_dot_scale(a: Seq<FS>, s: Seq<FS>, c: FS, sc: Seq<FS>, n: nat)
    requires n <= a.len(), n <= s.len(), n <= sc.len(), forall|i: int| 0 <= i < n ==> sc[i] == f_mul(c, s[i])
    ensures dot(a, sc, n) == f_mul(c, dot(a, s, n))
    decreases n
{
    broadcast use ring_axioms;
    if n == 0 { lemma_mul_zero(c); } else {
        lemma_dot_scale(a, s, c, sc, (n - 1) as nat);
        assert(f_mul(a[n - 1], f_mul(c, s[n - 1])) == f_mul(c, f_mul(a[n - 1], s[n - 1]))) by {
            assert(f_mul(a[n - 1], f_mul(c, s[n - 1])) == f_mul(f_mul(a[n - 1], c), s[n - 1]));
            assert(f_mul(a[n - 1], c) == f_mul(c, a[n - 1]));
        }
    }
}
pub proof fn lemma_dot_add(a: Seq<FS>, s: Seq<FS>, t: Seq<FS>, st: Seq<FS>, n: nat)
    requires n <= a.len(), n <= s.len(), n <= t.len(), n <= st.len(), forall|i: int| 0 <= i < n ==> st[i] == f_add(s[i], t[i])
    ensures dot(a, st, n) == f_add(dot(a, s, n), dot(a, t, n))
    decreases n
{
    broadcast use ring_axioms;
    if n > 0 {
        lemma_dot_add(a, s, t, st, (n - 1) as nat);
        lemma_add_swap(dot(a, s, (n - 1) as nat), f_mul(a[n - 1], s[n - 1]), dot(a, t, (n - 1) as nat), f_mul(a[n - 1], t[n - 1]));
    }
}
// bases of the form a[i] = g * x^(off+i):  dot(a, c, n) = g * x^off * peval(c, x, n)
pub open spec fn geometric(a: Seq<FS>, g: FS, x: FS, off: nat) -> bool {
    forall|i: int| 0 <= i < a.len() ==> #[trigger] a[i] == f_mul(g, f_pow(x, off + i as nat))
}
pub proof fn lemma_pow_add(x: FS, m: nat, n: nat) ensures f_pow(x, m + n) == f_mul(f_pow(x, m), f_pow(x, n))
    decreases n
{
    broadcast use ring_axioms;
    if n > 0 {
        lemma_pow_add(x, m, (n - 1) as nat);
        assert(f_pow(x, m + n) == f_mul(f_pow(x, (m + n - 1) as nat), x));
    }
}
pub proof fn lemma_dot_geometric(a: Seq<FS>, g: FS, x: FS, off: nat, c: Seq<FS>, n: nat)
    requires geometric(a, g, x, off), n <= a.len(), n <= c.len()
    ensures dot(a, c, n) == f_mul(f_mul(g, f_pow(x, off)), peval(c, x, n))
    decreases n
{
    broadcast use ring_axioms;
    if n == 0 { lemma_mul_zero(f_mul(g, f_pow(x, off))); } else {
        lemma_dot_geometric(a, g, x, off, c, (n - 1) as nat);
        assert(a[n - 1] == f_mul(g, f_pow(x, off + (n - 1) as nat)));
        lemma_pow_add(x, off, (n - 1) as nat);
        let gp = f_mul(g, f_pow(x, off)); let xn = f_pow(x, (n - 1) as nat); let cn = c[n - 1];
        assert(f_mul(a[n - 1], cn) == f_mul(gp, f_mul(cn, xn))) by {
            assert(a[n - 1] == f_mul(gp, xn));
            assert(f_mul(f_mul(gp, xn), cn) == f_mul(gp, f_mul(xn, cn)));
            assert(f_mul(xn, cn) == f_mul(cn, xn));
        }
    }
}
pub proof fn lemma_peval_ext(c: Seq<FS>, d: Seq<FS>, x: FS, n: nat)
    requires n <= c.len(), n <= d.len(), forall|i: int| 0 <= i < n ==> c[i] == d[i]
    ensures peval(c, x, n) == peval(d, x, n)
    decreases n
{ if n > 0 { lemma_peval_ext(c, d, x, (n - 1) as nat); } }
pub proof fn lemma_peval_trailing_zeros(c: Seq<FS>, x: FS, m: nat, n: nat)
    requires m <= n, n <= c.len(), forall|i: int| m <= i < n ==> c[i] == f_zero()
    ensures peval(c, x, n) == peval(c, x, m)
    decreases n
{
    if n > m {
        lemma_peval_trailing_zeros(c, x, m, (n - 1) as nat);
        lemma_mul_zero(f_pow(x, (n - 1) as nat));
        ax_add_zero(peval(c, x, (n - 1) as nat));
    }
}
pub proof fn lemma_peval_zero(c: Seq<FS>, x: FS, n: nat)
    requires n <= c.len(), forall|i: int| 0 <= i < n ==> c[i] == f_zero()
    ensures peval(c, x, n) == f_zero()
    decreases n
{ if n > 0 { lemma_peval_zero(c, x, (n - 1) as nat); lemma_mul_zero(f_pow(x, (n - 1) as nat)); ax_add_zero(f_zero()); } }
// multiplying by X^k: the coefficient vector 0^k ++ c evaluates to x^k * c(x)
pub proof fn lemma_peval_shift(z: Seq<FS>, c: Seq<FS>, x: FS, n: nat)
    requires n <= c.len(), forall|i: int| 0 <= i < z.len() ==> z[i] == f_zero()
    ensures peval(z + c, x, z.len() + n) == f_mul(f_pow(x, z.len()), peval(c, x, n))
    decreases n
{
    let k = z.len(); let zc = z + c;
    if n == 0 {
        lemma_peval_ext(zc, z, x, k);
        lemma_peval_zero(z, x, k);
        lemma_mul_zero(f_pow(x, k));
    } else {
        lemma_peval_shift(z, c, x, (n - 1) as nat);
        assert(zc[k + n - 1] == c[n - 1]);
        lemma_pow_add(x, k, (n - 1) as nat);
        let xk = f_pow(x, k); let xn = f_pow(x, (n - 1) as nat); let cn = c[n - 1]; let pn = peval(c, x, (n - 1) as nat);
        // cn * (xk * xn) == xk * (cn * xn)
        assert(f_mul(cn, f_mul(xk, xn)) == f_mul(xk, f_mul(cn, xn))) by {
            ax_mul_assoc(cn, xk, xn); ax_mul_comm(cn, xk); ax_mul_assoc(xk, cn, xn);
        }
        ax_distrib(xk, pn, f_mul(cn, xn));
    }
}
