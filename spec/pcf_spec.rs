// ===== spec/pcf_spec.rs : coefficient t of a dense polynomial (zero beyond the stored length) =====
pub open spec fn pcf(p: &Poly, t: int) -> FS { if 0 <= t < p.coeffs@.len() { p.coeffs@[t]@ } else { f_zero() } }
