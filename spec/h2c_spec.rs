// ===== spec/h2c_spec.rs : try-and-increment hash-to-curve: generator i = first curve point of the attempt sequence of index i =====
// ---- specification ----
// attempt 0 hashes PROTOCOL_NAME || i, attempt t >= 1 hashes PROTOCOL_NAME || i || (t - 1): EVERY attempt depends on the index i
pub open spec fn attempt(i: u64, t: nat) -> Option<G1Affine> { if t == 0 { frb(dig(pname() + le8(i))) } else { frb(dig(pname() + le8(i) + le8((t - 1) as u64))) } }
pub open spec fn first_hit(i: u64, t: nat) -> bool { attempt(i, t) is Some && forall|t2: nat| t2 < t ==> attempt(i, t2) is None }
pub open spec fn h2c_gen(i: nat) -> AS { let t = choose|t: nat| #[trigger] first_hit(i as u64, t); cof(attempt(i as u64, t)->Some_0) }
pub proof fn lemma_first_hit_unique(i: u64, t: nat)
    requires first_hit(i, t)
    ensures h2c_gen(i as nat) == cof(attempt(i, t)->Some_0)
{
    let t0 = choose|t0: nat| #[trigger] first_hit(i as nat as u64, t0);
    assert(first_hit(i, t));
    if t0 < t { assert(attempt(i, t0) is None); } else if t < t0 { assert(attempt(i, t) is None); }
}
// hash-to-field by try-and-increment (IPA compute_random_oracle_challenge): attempt t hashes  bytes || t ; the challenge is the first field element obtained.
// The WHOLE byte string enters every attempt.
pub open spec fn ro_attempt(b: Seq<u8>, t: nat) -> Option<Fr> { frf(dig(b + le8(t as u64))) }
pub open spec fn ro_first(b: Seq<u8>, t: nat) -> bool { ro_attempt(b, t) is Some && forall|t2: nat| t2 < t ==> ro_attempt(b, t2) is None }
pub open spec fn ro_chal(b: Seq<u8>) -> FS { let t = choose|t: nat| #[trigger] ro_first(b, t); ro_attempt(b, t)->Some_0@ }
pub proof fn lemma_ro_first_unique(b: Seq<u8>, t: nat)
    requires ro_first(b, t)
    ensures ro_chal(b) == ro_attempt(b, t)->Some_0@
{
    let t0 = choose|t0: nat| #[trigger] ro_first(b, t0);
    assert(ro_first(b, t));
    if t0 < t { assert(ro_attempt(b, t0) is None); } else if t < t0 { assert(ro_attempt(b, t) is None); }
}
