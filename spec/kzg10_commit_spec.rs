// ===== spec/kzg10_commit_spec.rs : KZG10 commit/open specification functions =====
// commitment = sum_i p_i * powers_of_g[i]  +  sum_i r_i * powers_of_gamma_g[i]
pub open spec fn commit_spec(powers: &Powers, p: Seq<FS>, blind: Seq<FS>) -> FS {
    f_add(msm(powers.powers_of_g@, p, p.len()),
          msm(powers.powers_of_gamma_g@, blind, min(powers.powers_of_gamma_g@.len(), blind.len())))
}
// what `open` returns: a commitment to quotient polynomials w, wr with
//   p(x) = w(x)(x - z) + p(z),   r(x) = wr(x)(x - z) + r(z)   (wr only if the commitment is hiding)
pub open spec fn open_spec_seq(pg: Seq<G1Affine>, pgamma: Seq<G1Affine>, p: &Poly, point: Fr, rand: &Randomness, proof: Proof) -> bool {
    exists|w: Poly, hw: Option<Poly>| #![trigger w.cv(), hw.is_some()]
        (forall|x: FS| p.ev(x) == f_add(f_mul(#[trigger] w.ev(x), f_sub(x, point@)), p.ev(point@)))
        && (hw is Some) == !rand.blinding_polynomial.is_zero_spec()
        && (hw is Some ==> (forall|x: FS| rand.blinding_polynomial.ev(x) == f_add(f_mul(#[trigger] hw->Some_0.ev(x), f_sub(x, point@)), rand.blinding_polynomial.ev(point@))))
        && proof.w@ == f_add(msm(pg, w.cv(), w.len()),
              match hw { Some(h) => msm(pgamma, h.cv(), min(pgamma.len(), h.len())), None => f_zero() })
        && (proof.random_v is Some) == (hw is Some)
        && (hw is Some ==> proof.random_v->Some_0@ == rand.blinding_polynomial.ev(point@))
        && w.len() <= pg.len()
        && (hw is Some ==> hw->Some_0.len() + 1 <= rand.blinding_polynomial.len() || hw->Some_0.len() == 0)
}
pub open spec fn open_spec(powers: &Powers, p: &Poly, point: Fr, rand: &Randomness, proof: Proof) -> bool { open_spec_seq(powers.powers_of_g@, powers.powers_of_gamma_g@, p, point, rand, proof) }

// Key material in trapdoor form (this is what KZG10::setup + trim establish, see units/kzg10_setup.rs):
pub open spec fn srs_ok(powers: &Powers, vk: &VerifierKey, beta: FS) -> bool {
    geometric(g1views(powers.powers_of_g@), vk.g@, beta, 0)
    && geometric(g1views(powers.powers_of_gamma_g@), vk.gamma_g@, beta, 0)
    && vk.beta_h@ == f_mul(vk.h@, beta)
}
