// ===== spec/lincode_spec.rs : the Ligero/Brakedown verification relation and the transcript schedule shared by prover and verifier =====
// ======================= specification: Ligero / Brakedown verifier, [AHIV17] sec. 4, [GLSTW21] fig. 2 =======================
// number of column openings for a commitment: t of ITS OWN codeword length
pub open spec fn lc_t(vk: &Params, com: &LinCodePCCommitment) -> int { t_value(vk.sec as int, vk.dist, com.metadata.n_ext_cols as int) }
// sponge state when the column indices of one proof are drawn: root, [r <- squeeze(n_rows); absorb v_wf], point, v absorbed
pub open spec fn lc_pre_wf(s: SS, com: &LinCodePCCommitment) -> SS { sp_absorb(s, AbsData::Bytes(com.root.ser_bytes())) }
#[verifier::opaque]
pub open spec fn lc_pre_indices(s: SS, vk: &Params, com: &LinCodePCCommitment, pr: &LinCodePCProof, pv: Seq<FS>) -> SS {
    let s1 = lc_pre_wf(s, com);
    let s2 = if vk.wf { sp_absorb(sp_sqn_next(s1, com.metadata.n_rows as nat), AbsData::Field(fviews(pr.well_formedness->Some_0@))) } else { s1 };
    sp_absorb(sp_absorb(s2, AbsData::Field(pv)), AbsData::Field(fviews(pr.opening.v@)))
}
#[verifier::opaque]
pub open spec fn lc_index(s: SS, vk: &Params, com: &LinCodePCCommitment, pr: &LinCodePCProof, pv: Seq<FS>, j: nat) -> nat {
    let nb = get_num_bytes_spec(com.metadata.n_ext_cols);
    be_value(sp_sqb(idx_state(lc_pre_indices(s, vk, com, pr, pv), nb, j), nb), nb) % (com.metadata.n_ext_cols as nat)
}
#[verifier::opaque]
pub open spec fn lc_post(s: SS, vk: &Params, com: &LinCodePCCommitment, pr: &LinCodePCProof, pv: Seq<FS>) -> SS {
    idx_state(lc_pre_indices(s, vk, com, pr, pv), get_num_bytes_spec(com.metadata.n_ext_cols), lc_t(vk, com) as nat)
}
pub open spec fn lc_state(s: SS, vk: &Params, coms: Seq<&LabeledCommitment<LinCodePCCommitment>>, prs: Seq<LinCodePCProof>, pv: Seq<FS>, k: nat) -> SS decreases k {
    if k == 0 { s } else { lc_post(lc_state(s, vk, coms, prs, pv, (k - 1) as nat), vk, &coms[k - 1].commitment, &prs[k - 1], pv) }
}
// everything the verifier must have established for the i-th (commitment, value, proof) triple before accepting
#[verifier::opaque]
pub open spec fn lc_accepts_one(s: SS, vk: &Params, com: &LinCodePCCommitment, value: FS, pr: &LinCodePCProof, z: &Pt) -> bool {
    let t = lc_t(vk, com); let pv = point_vec_spec(*z);
    let a = tensor_a(z, com.metadata.n_cols as nat, com.metadata.n_rows as nat); let b = tensor_b(z, com.metadata.n_cols as nat, com.metadata.n_rows as nat);
    let w = encode_spec(fviews(pr.opening.v@), vk);
    (vk.wf ==> pr.well_formedness is Some)
    && pr.opening.paths@.len() >= t && pr.opening.columns@.len() >= t                                  // t columns are opened ...
    && (forall|j: int| 0 <= j < t ==> (#[trigger] pr.opening.paths@[j]).leaf_index == lc_index(s, vk, com, pr, pv, j as nat))   // ... at the transcript-derived positions
    && (forall|j: int| 0 <= j < t ==> (#[trigger] lc_index(s, vk, com, pr, pv, j as nat)) < w.len()
            && ip(b, fviews(pr.opening.columns@[j]@)) == w[lc_index(s, vk, com, pr, pv, j as nat) as int])   // column consistency <b, col_j> = E(v)[q_j]
    && (vk.wf ==> (forall|j: int| 0 <= j < t ==>
            ip(sqn_seq(lc_pre_wf(s, com), com.metadata.n_rows as nat), fviews(pr.opening.columns@[j]@))
              == encode_spec(fviews(pr.well_formedness->Some_0@), vk)[(#[trigger] lc_index(s, vk, com, pr, pv, j as nat)) as int]))        // well-formedness consistency
    && ip(fviews(pr.opening.v@), a) == value                                                               // claimed value = <v, a>
}
pub open spec fn sqn_seq(s: SS, n: nat) -> Seq<FS> { Seq::new(n, |i: int| sp_sqn_fe(s, n, i as nat)) }
#[verifier::opaque]
pub open spec fn lc_paths_authentic(s: SS, vk: &Params, com: &LinCodePCCommitment, pr: &LinCodePCProof) -> bool {
    forall|j: int| 0 <= j < lc_t(vk, com) ==> path_valid((#[trigger] pr.opening.paths@[j]), com.root, col_hash(fviews(pr.opening.columns@[j]@)))
}


// ---- introduction lemmas: keep the big definitions out of the verifier's loop-body query ----
pub proof fn lemma_lc_indices(s: SS, vk: &Params, com: &LinCodePCCommitment, pr: &LinCodePCProof, pv: Seq<FS>, s_pre: SS, s_post: SS, indices: Seq<usize>, t: int)
    requires
        s_pre == lc_pre_indices(s, vk, com, pr, pv), t == lc_t(vk, com), t >= 0, indices.len() == t,
        forall|j: int| 0 <= j < t ==> (#[trigger] indices[j]) == be_value(sp_sqb(idx_state(s_pre, get_num_bytes_spec(com.metadata.n_ext_cols), j as nat), get_num_bytes_spec(com.metadata.n_ext_cols)), get_num_bytes_spec(com.metadata.n_ext_cols)) % (com.metadata.n_ext_cols as nat),
        s_post == idx_state(s_pre, get_num_bytes_spec(com.metadata.n_ext_cols), t as nat),
    ensures
        forall|j: int| 0 <= j < t ==> (#[trigger] indices[j]) == lc_index(s, vk, com, pr, pv, j as nat),
        s_post == lc_post(s, vk, com, pr, pv),
{
    reveal(lc_index); reveal(lc_post);
}
pub proof fn lemma_lc_accepts_intro(s: SS, vk: &Params, com: &LinCodePCCommitment, value: FS, pr: &LinCodePCProof, z: &Pt, indices: Seq<usize>, w: Seq<FS>, a: Seq<FS>, b: Seq<FS>)
    requires
        indices.len() == lc_t(vk, com),
        forall|j: int| 0 <= j < lc_t(vk, com) ==> (#[trigger] indices[j]) == lc_index(s, vk, com, pr, point_vec_spec(*z), j as nat),
        vk.wf ==> pr.well_formedness is Some,
        pr.opening.paths@.len() >= lc_t(vk, com), pr.opening.columns@.len() >= lc_t(vk, com),
        forall|j: int| 0 <= j < lc_t(vk, com) ==> pr.opening.paths@[j].leaf_index == #[trigger] indices[j],
        w == encode_spec(fviews(pr.opening.v@), vk),
        a == tensor_a(z, com.metadata.n_cols as nat, com.metadata.n_rows as nat), b == tensor_b(z, com.metadata.n_cols as nat, com.metadata.n_rows as nat),
        forall|j: int| 0 <= j < lc_t(vk, com) ==> (#[trigger] indices[j]) < w.len() && ip(b, fviews(pr.opening.columns@[j]@)) == w[indices[j] as int],
        vk.wf ==> forall|j: int| 0 <= j < lc_t(vk, com) ==> ip(sqn_seq(lc_pre_wf(s, com), com.metadata.n_rows as nat), fviews(pr.opening.columns@[j]@))
            == encode_spec(fviews(pr.well_formedness->Some_0@), vk)[(#[trigger] indices[j]) as int],
        ip(fviews(pr.opening.v@), a) == value,
    ensures
        lc_accepts_one(s, vk, com, value, pr, z),
{
    reveal(lc_accepts_one);
    let t = lc_t(vk, com); let pv = point_vec_spec(*z);
    assert forall|j: int| 0 <= j < t implies (#[trigger] pr.opening.paths@[j]).leaf_index == lc_index(s, vk, com, pr, pv, j as nat) by { assert(indices[j] as int >= 0); }
    assert forall|j: int| 0 <= j < t implies (#[trigger] lc_index(s, vk, com, pr, pv, j as nat)) < w.len()
        && ip(b, fviews(pr.opening.columns@[j]@)) == w[lc_index(s, vk, com, pr, pv, j as nat) as int] by { assert(indices[j] as int >= 0); }
    if vk.wf {
        assert forall|j: int| 0 <= j < t implies ip(sqn_seq(lc_pre_wf(s, com), com.metadata.n_rows as nat), fviews(pr.opening.columns@[j]@))
            == encode_spec(fviews(pr.well_formedness->Some_0@), vk)[(#[trigger] lc_index(s, vk, com, pr, pv, j as nat)) as int] by { assert(indices[j] as int >= 0); }
    }
}
pub proof fn lemma_lc_paths_intro(s: SS, vk: &Params, com: &LinCodePCCommitment, pr: &LinCodePCProof)
    requires forall|j: int| 0 <= j < lc_t(vk, com) ==> path_valid((#[trigger] pr.opening.paths@[j]), com.root, col_hash(fviews(pr.opening.columns@[j]@)))
    ensures lc_paths_authentic(s, vk, com, pr)
{ reveal(lc_paths_authentic); }
