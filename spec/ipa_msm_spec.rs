// ===== spec/ipa_msm_spec.rs : PROVED -- the key-defined linear map of a coefficient vector (IPA / Pedersen commitments), coefficient-wise linearity =====
// M(p) = <key, coefficients of p zero-padded to the key length>
pub open spec fn pm(key: Seq<G1Affine>, p: &Poly) -> FS { msm(key, padz(p.cv(), key.len()), key.len()) }
pub proof fn lemma_dot_trailing_zeros(a: Seq<FS>, s: Seq<FS>, k: nat, n: nat)
    requires k <= n, n <= a.len(), n <= s.len(), forall|i: int| k <= i < n ==> s[i] == f_zero()
    ensures dot(a, s, n) == dot(a, s, k)
    decreases n
{ if n > k { lemma_dot_trailing_zeros(a, s, k, (n - 1) as nat); lemma_mul_zero(a[n - 1]); ax_add_zero(dot(a, s, (n - 1) as nat)); } }
// r = a + c q coefficient-wise  ==>  M(r) = M(a) + c M(q)
pub proof fn lemma_pm_lin(key: Seq<G1Affine>, r: &Poly, a: &Poly, c: FS, q: &Poly)
    requires forall|t: int| #[trigger] pcf(r, t) == f_add(pcf(a, t), f_mul(c, pcf(q, t)))
    ensures pm(key, r) == f_add(pm(key, a), f_mul(c, pm(key, q)))
{
    let n = key.len(); let g = g1views(key);
    let aa = padz(a.cv(), n); let qq = padz(q.cv(), n); let rr = padz(r.cv(), n); let cq = Seq::new(n, |i: int| f_mul(c, qq[i]));
    assert forall|i: int| 0 <= i < n implies rr[i] == f_add(aa[i], cq[i]) by { assert(rr[i] == pcf(r, i)); assert(aa[i] == pcf(a, i)); assert(qq[i] == pcf(q, i)); }
    lemma_dot_add(g, aa, cq, rr, n);
    lemma_dot_scale(g, qq, c, cq, n);
}
// the commitment over a key prefix of length m (the first min(m, len) coefficients) is M(p) when nothing non-zero is cut off
pub proof fn lemma_pm_prefix(key: Seq<G1Affine>, p: &Poly, m: nat)
    requires m <= key.len(), min(m, p.len()) == p.len() || p.is_zero_spec()
    ensures msm(key.subrange(0, m as int), p.cv(), min(m, p.len())) == pm(key, p)
{
    let n = key.len(); let g = g1views(key); let w = g1views(key.subrange(0, m as int)); let k = min(m, p.len()); let pp = padz(p.cv(), n);
    if p.is_zero_spec() {
        assert forall|i: int| 0 <= i < k implies p.cv()[i] == f_zero() by { assert(p.coeffs@[i]@ == f_zero()); }
        assert forall|i: int| 0 <= i < n implies pp[i] == f_zero() by { if i < p.len() { assert(p.coeffs@[i]@ == f_zero()); } }
        lemma_dot_all_zero(w, p.cv(), k); lemma_dot_all_zero(g, pp, n);
    } else {
        lemma_dot_ext(w, g, p.cv(), pp, k);
        lemma_dot_trailing_zeros(g, pp, k, n);
    }
}
// the commitment of p under the LAST b + 1 key elements is M(X^(n-1-b) p)
pub proof fn lemma_pm_shift(key: Seq<G1Affine>, p: &Poly, sp: &Poly, b: nat)
    requires b + 1 <= key.len(), min(b + 1, p.len()) == p.len() || p.is_zero_spec(),
        forall|t: int| #[trigger] pcf(sp, t) == (if t >= key.len() - 1 - b { pcf(p, t - (key.len() - 1 - b)) } else { f_zero() })
    ensures msm(key.subrange(key.len() - 1 - b, key.len() as int), p.cv(), min(b + 1, p.len())) == pm(key, sp)
{
    let n = key.len(); let off = (n - 1 - b) as nat; let g = g1views(key); let wk = key.subrange(off as int, n as int); let w = g1views(wk);
    let k = min(b + 1, p.len()); let ss = padz(sp.cv(), n); let pb = padz(p.cv(), b + 1);
    assert forall|i: int| 0 <= i < n implies ss[i] == pcf(sp, i) by {}
    assert forall|i: int| 0 <= i < off implies ss[i] == f_zero() by { assert(ss[i] == pcf(sp, i)); }
    lemma_dot_zero_prefix(g, ss, n, off);
    let g2 = g.subrange(off as int, g.len() as int); let s2 = ss.subrange(off as int, n as int);
    assert forall|i: int| 0 <= i < b + 1 implies s2[i] == pb[i] by { assert(ss[i + off] == pcf(sp, i + off)); assert(pb[i] == pcf(p, i)); }
    lemma_dot_ext(g2, w, s2, pb, b + 1);
    // dot(w, pb, b + 1) == dot(w, p.cv(), k)
    if p.is_zero_spec() {
        assert forall|i: int| 0 <= i < k implies p.cv()[i] == f_zero() by { assert(p.coeffs@[i]@ == f_zero()); }
        assert forall|i: int| 0 <= i < b + 1 implies pb[i] == f_zero() by { if i < p.len() { assert(p.coeffs@[i]@ == f_zero()); } }
        lemma_dot_all_zero(w, p.cv(), k); lemma_dot_all_zero(w, pb, b + 1);
    } else {
        lemma_dot_ext(w, w, p.cv(), pb, k);
        lemma_dot_trailing_zeros(w, pb, k, b + 1);
    }
}
// ---- the two closing identities ----
// (Ma + s cr) + (Mp + s r) xi == (Ma + xi Mp) + s (cr + xi r)
pub proof fn lemma_acc_alg(ma: FS, cr: FS, mp: FS, r: FS, s: FS, xi: FS)
    ensures f_add(f_add(ma, f_mul(s, cr)), f_mul(f_add(mp, f_mul(s, r)), xi)) == f_add(f_add(ma, f_mul(xi, mp)), f_mul(s, f_add(cr, f_mul(xi, r))))
{
    ax_mul_comm(f_add(mp, f_mul(s, r)), xi); ax_distrib(xi, mp, f_mul(s, r));
    ax_mul_assoc(xi, s, r); ax_mul_comm(xi, s); ax_mul_assoc(s, xi, r);
    assert(f_mul(xi, f_mul(s, r)) == f_mul(s, f_mul(xi, r)));
    lemma_add_swap(ma, f_mul(s, cr), f_mul(xi, mp), f_mul(s, f_mul(xi, r)));
    ax_distrib(s, cr, f_mul(xi, r));
}
// (M0 + s cr) + ((Mh + s hr) hch - s (cr + hch hr)) == M0 + hch Mh
pub proof fn lemma_hide_alg(m0: FS, cr: FS, mh: FS, hr: FS, s: FS, hch: FS)
    ensures f_add(f_add(m0, f_mul(s, cr)), f_sub(f_mul(f_add(mh, f_mul(s, hr)), hch), f_mul(s, f_add(cr, f_mul(hch, hr))))) == f_add(m0, f_mul(hch, mh))
{
    let x = f_mul(s, cr); let y = f_mul(s, f_mul(hch, hr)); let t = f_mul(hch, mh);
    ax_mul_comm(f_add(mh, f_mul(s, hr)), hch); ax_distrib(hch, mh, f_mul(s, hr));
    ax_mul_assoc(hch, s, hr); ax_mul_comm(hch, s); ax_mul_assoc(s, hch, hr);
    assert(f_mul(f_add(mh, f_mul(s, hr)), hch) == f_add(t, y));
    ax_distrib(s, cr, f_mul(hch, hr));
    assert(f_mul(s, f_add(cr, f_mul(hch, hr))) == f_add(x, y));
    // (t + y) - (x + y) == t - x
    lemma_neg_add(x, y);
    ax_add_comm(f_neg(x), f_neg(y));
    ax_add_assoc(t, y, f_add(f_neg(y), f_neg(x)));
    ax_add_assoc(y, f_neg(y), f_neg(x)); ax_add_neg(y); ax_add_comm(f_zero(), f_neg(x)); ax_add_zero(f_neg(x));
    assert(f_sub(f_add(t, y), f_add(x, y)) == f_add(t, f_neg(x)));
    // (m0 + x) + (t - x) == m0 + t
    ax_add_assoc(m0, x, f_add(t, f_neg(x)));
    ax_add_comm(t, f_neg(x)); ax_add_assoc(x, f_neg(x), t); ax_add_neg(x); ax_add_comm(f_zero(), t); ax_add_zero(t);
}
