// ===== spec/pst13_setup_spec.rs : PROVED - a multiset of variable indices and the monomial MarlinPST13::setup publishes for it =====
// product of the trapdoor coordinates over the multiset:  prod_{i<k} b(term[i])
pub open spec fn mprod(term: Seq<usize>, b: Asg, k: nat) -> FS decreases k { if k == 0 { f_one() } else { f_mul(mprod(term, b, (k - 1) as nat), b(term[k - 1] as int)) } }
// occurrences of `var` among the first k entries
pub open spec fn cnt(term: Seq<usize>, var: int, k: nat) -> nat decreases k { if k == 0 { 0 } else { cnt(term, var, (k - 1) as nat) + (if term[k - 1] == var { 1nat } else { 0nat }) } }
// the exponent vector  [(0, #0), (1, #1), ..., (n-1, #(n-1))]  built by `(0..num_vars).map(|var| (var, count of var)).collect()`
pub open spec fn cvec(term: Seq<usize>, n: nat, k: nat) -> Seq<(usize, usize)> { Seq::new(n, |v: int| (v as usize, cnt(term, v, k) as usize)) }
proof fn s_rcomm(a: FS, b: FS, c: FS) ensures f_mul(f_mul(a, b), c) == f_mul(f_mul(a, c), b)
{ ax_mul_assoc(a, b, c); ax_mul_comm(b, c); ax_mul_assoc(a, c, b); }
pub proof fn lemma_cnt_bound(term: Seq<usize>, var: int, k: nat) ensures cnt(term, var, k) <= k decreases k { if k > 0 { lemma_cnt_bound(term, var, (k - 1) as nat); } }
// one more entry e of the multiset multiplies the monomial's value by b(e)  (when e is one of the n variables)
pub proof fn lemma_cvec_step(term: Seq<usize>, n: nat, k: nat, b: Asg)
    requires k < term.len(), k < usize::MAX, n <= usize::MAX
    ensures te(cvec(term, n, k + 1), b) == (if term[k as int] < n { f_mul(te(cvec(term, n, k), b), b(term[k as int] as int)) } else { te(cvec(term, n, k), b) })
    decreases n
{
    if n == 0 { assert(cvec(term, 0, k + 1).len() == 0 && cvec(term, 0, k).len() == 0); } else {
        let m = (n - 1) as nat; let e = term[k as int];
        lemma_cvec_step(term, m, k, b);
        let c1 = cvec(term, n, k + 1); let c0 = cvec(term, n, k);
        assert(c1.drop_last() =~= cvec(term, m, k + 1)); assert(c0.drop_last() =~= cvec(term, m, k));
        lemma_cnt_bound(term, m as int, k); lemma_cnt_bound(term, m as int, k + 1);
        let x = b(m as int); let p0 = cnt(term, m as int, k); let p1 = cnt(term, m as int, k + 1);
        assert(c1.last() == (m as usize, p1 as usize) && c0.last() == (m as usize, p0 as usize));
        let t1 = te(cvec(term, m, k + 1), b); let t0 = te(cvec(term, m, k), b);
        assert(te(c1, b) == f_mul(t1, f_pow(x, p1)));
        assert(te(c0, b) == f_mul(t0, f_pow(x, p0)));
        if e == m {
            // the new entry is the last variable: exponent + 1, the rest unchanged
            assert(p1 == p0 + 1 && t1 == t0);
            assert(f_pow(x, p1) == f_mul(f_pow(x, p0), x));
            ax_mul_assoc(t0, f_pow(x, p0), x);
        } else {
            assert(p1 == p0);
            if e < m { s_rcomm(t0, b(e as int), f_pow(x, p0)); }
        }
    }
}
// THE statement: the monomial (exponent vector) built from a multiset of variables < n evaluates, at the trapdoor, to the product over the multiset
pub proof fn lemma_cvec_is_mprod(term: Seq<usize>, n: nat, k: nat, b: Asg)
    requires k <= term.len(), term.len() < usize::MAX, n <= usize::MAX, forall|i: int| 0 <= i < term.len() ==> (#[trigger] term[i]) < n
    ensures te(cvec(term, n, k), b) == mprod(term, b, k)
    decreases k
{
    if k == 0 { lemma_cvec_zero(term, n, b); } else {
        lemma_cvec_is_mprod(term, n, (k - 1) as nat, b);
        lemma_cvec_step(term, n, (k - 1) as nat, b);
    }
}
pub proof fn lemma_cvec_zero(term: Seq<usize>, n: nat, b: Asg)
    requires n <= usize::MAX
    ensures te(cvec(term, n, 0), b) == f_one()
    decreases n
{
    if n > 0 {
        lemma_cvec_zero(term, (n - 1) as nat, b);
        assert(cvec(term, n, 0).drop_last() =~= cvec(term, (n - 1) as nat, 0));
        assert(cvec(term, n, 0).last().1 == 0);
        ax_mul_one(f_one());
    } else { assert(cvec(term, 0, 0).len() == 0); }
}
