// ===== spec/hyrax_spec.rs : Hyrax dot-product argument relation and transcript schedule (shared by verifier and prover units) =====
// ======================= specification: Hyrax dot-product argument, [WTSTW17] figure 6 =======================
//   eq (13):  Com(z; z_d)      = c * T' + com_d      with T' = sum_i l_i * row_com_i
//   eq (14):  Com(<r, z>; z_b) = c * com_eval + com_b
pub open spec fn pedersen(key: Seq<G1Affine>, s: Seq<FS>) -> FS { msm(key, s, min(key.len(), s.len())) }
pub open spec fn hyrax_eq14(vk: &HyraxUniversalParams, r: Seq<FS>, p: &HyraxProof, c: FS) -> bool {
    f_add(f_mul(vk.com_key@[0]@, fsum(pointwise_mul(r, fviews(p.z@)), min(r.len(), p.z@.len()))), f_mul(vk.h@, p.z_b@)) == f_add(f_mul(p.com_eval@, c), p.com_b@)
}
pub open spec fn hyrax_eq13(vk: &HyraxUniversalParams, row_coms: Seq<G1Affine>, l: Seq<FS>, p: &HyraxProof, c: FS) -> bool {
    f_add(pedersen(vk.com_key@, fviews(p.z@)), f_mul(vk.h@, p.z_d@)) == f_add(f_mul(msm(row_coms, l, min(row_coms.len(), l.len())), c), p.com_d@)
}
// sponge state before the i-th proof is processed, and the challenge of the i-th proof
pub open spec fn hyrax_absorbed(s: SS, vk: &HyraxUniversalParams, com: &HyraxCommitment, point: Seq<FS>, p: &HyraxProof) -> SS {
    sp_absorb(sp_absorb(sp_absorb(sp_absorb(sp_absorb(sp_absorb(s, AbsData::Bytes(vk.ser_bytes())), AbsData::Bytes(com.row_coms.ser_bytes())), AbsData::Field(point)),
        AbsData::Bytes(p.com_eval.ser_bytes())), AbsData::Bytes(p.com_d.ser_bytes())), AbsData::Bytes(p.com_b.ser_bytes()))
}
pub open spec fn hyrax_state(s: SS, vk: &HyraxUniversalParams, coms: Seq<&LabeledCommitment<HyraxCommitment>>, point: Seq<FS>, proofs: Seq<HyraxProof>, k: nat) -> SS decreases k {
    if k == 0 { s } else { sp_sqn_next(hyrax_absorbed(hyrax_state(s, vk, coms, point, proofs, (k - 1) as nat), vk, &coms[k - 1].commitment, point, &proofs[k - 1]), 1) }
}
pub open spec fn hyrax_chal(s: SS, vk: &HyraxUniversalParams, coms: Seq<&LabeledCommitment<HyraxCommitment>>, point: Seq<FS>, proofs: Seq<HyraxProof>, i: nat) -> FS {
    sp_sqn_fe(hyrax_absorbed(hyrax_state(s, vk, coms, point, proofs, i), vk, &coms[i as int].commitment, point, &proofs[i as int]), 1, 0)
}
// tensor_prime (hyrax/utils.rs): all 2^n products prod_i (v_i or 1 - v_i); the first coordinate selects the upper half
pub open spec fn tensor_prime_spec(v: Seq<FS>) -> Seq<FS> decreases v.len() {
    if v.len() == 0 { seq![f_one()] } else {
        let t = tensor_prime_spec(v.subrange(1, v.len() as int));
        Seq::new(t.len(), |i: int| f_mul(t[i], f_sub(f_one(), v[0]))) + Seq::new(t.len(), |i: int| f_mul(t[i], v[0]))
    }
}
pub proof fn lemma_tensor_prime_len(v: Seq<FS>) ensures tensor_prime_spec(v).len() == vstd::arithmetic::power2::pow2(v.len()) decreases v.len()
{
    vstd::arithmetic::power2::lemma2_to64();
    if v.len() > 0 { lemma_tensor_prime_len(v.subrange(1, v.len() as int)); vstd::arithmetic::power2::lemma_pow2_unfold(v.len()); }
}
pub open spec fn rev_seq(s: Seq<FS>) -> Seq<FS> { Seq::new(s.len(), |i: int| s[s.len() - 1 - i]) }
pub open spec fn hyrax_l(point: Seq<FS>) -> Seq<FS> { tensor_prime_spec(rev_seq(point).subrange((point.len() / 2) as int, point.len() as int)) }
pub open spec fn hyrax_r(point: Seq<FS>) -> Seq<FS> { tensor_prime_spec(rev_seq(point).subrange(0, (point.len() / 2) as int)) }
// placeholder for ANY relation tying the claimed value to the evaluation commitment com_eval (see finding F1):
pub uninterp spec fn hyrax_value_bound(vk: &HyraxUniversalParams, value: FS, p: &HyraxProof) -> bool;

