// ===== spec/ipa_fold_spec.rs : PROVED -- the algebra of the inner-product-argument folding rounds (no assumptions beyond the field axioms) =====
// one round: a vector of even length 2h is folded to its left half plus x times its right half
pub open spec fn fold1(g: Seq<FS>, x: FS) -> Seq<FS> { let h = g.len() / 2; Seq::new(h, |j: int| f_add(g[j], f_mul(x, g[j + h]))) }
pub open spec fn lhalf(g: Seq<FS>) -> Seq<FS> { g.subrange(0, (g.len() / 2) as int) }
pub open spec fn rhalf(g: Seq<FS>) -> Seq<FS> { g.subrange((g.len() / 2) as int, g.len() as int) }
// the quantity the rounds preserve:  <a, G> + h' <a, b>
pub open spec fn ipa_p(g: Seq<FS>, a: Seq<FS>, b: Seq<FS>, hp: FS) -> FS { f_add(dot(g, a, a.len()), f_mul(hp, dot(a, b, a.len()))) }
// the cross terms sent in a round:  L = <G_l, a_r> + h' <a_r, b_l>,   R = <G_r, a_l> + h' <a_l, b_r>
pub open spec fn ipa_lterm(g: Seq<FS>, a: Seq<FS>, b: Seq<FS>, hp: FS) -> FS { let h = a.len() / 2; f_add(dot(lhalf(g), rhalf(a), h), f_mul(hp, dot(rhalf(a), lhalf(b), h))) }
pub open spec fn ipa_rterm(g: Seq<FS>, a: Seq<FS>, b: Seq<FS>, hp: FS) -> FS { let h = a.len() / 2; f_add(dot(rhalf(g), lhalf(a), h), f_mul(hp, dot(lhalf(a), rhalf(b), h))) }

pub proof fn lemma_dot_comm(a: Seq<FS>, b: Seq<FS>, n: nat)
    requires n <= a.len(), n <= b.len()
    ensures dot(a, b, n) == dot(b, a, n)
    decreases n
{ if n > 0 { lemma_dot_comm(a, b, (n - 1) as nat); ax_mul_comm(a[n - 1], b[n - 1]); } }
// w = u1 + x u2 (pointwise)  ==>  <w, v> = <u1, v> + x <u2, v>
pub proof fn lemma_dot_lin2(u1: Seq<FS>, u2: Seq<FS>, x: FS, w: Seq<FS>, v: Seq<FS>, n: nat)
    requires n <= u1.len(), n <= u2.len(), n <= w.len(), n <= v.len(), forall|i: int| 0 <= i < n ==> w[i] == f_add(u1[i], f_mul(x, u2[i]))
    ensures dot(w, v, n) == f_add(dot(u1, v, n), f_mul(x, dot(u2, v, n)))
    decreases n
{
    if n == 0 { lemma_mul_zero(x); ax_add_zero(f_zero()); }
    else {
        let m = (n - 1) as nat; let i = n - 1;
        lemma_dot_lin2(u1, u2, x, w, v, m);
        let aa = dot(u1, v, m); let bb = dot(u2, v, m); let p = f_mul(u1[i], v[i]); let q = f_mul(u2[i], v[i]);
        assert(f_mul(w[i], v[i]) == f_add(p, f_mul(x, q))) by {
            ax_mul_comm(w[i], v[i]); ax_distrib(v[i], u1[i], f_mul(x, u2[i])); ax_mul_comm(v[i], u1[i]); ax_mul_comm(v[i], f_mul(x, u2[i])); ax_mul_assoc(x, u2[i], v[i]);
        }
        lemma_add_swap(aa, f_mul(x, bb), p, f_mul(x, q));
        ax_distrib(x, bb, q);
    }
}
// (p + y q) + x (r + y s) == (p + s) + (q y + r x)   when x y = 1
pub proof fn lemma_bilin_alg(p: FS, q: FS, r: FS, s: FS, x: FS, y: FS)
    requires f_mul(x, y) == f_one()
    ensures f_add(f_add(p, f_mul(y, q)), f_mul(x, f_add(r, f_mul(y, s)))) == f_add(f_add(p, s), f_add(f_mul(q, y), f_mul(r, x)))
{
    ax_distrib(x, r, f_mul(y, s)); ax_mul_assoc(x, y, s); ax_mul_comm(f_one(), s); ax_mul_one(s);
    assert(f_mul(x, f_add(r, f_mul(y, s))) == f_add(f_mul(x, r), s));
    ax_add_comm(f_mul(x, r), s);
    lemma_add_swap(p, f_mul(y, q), s, f_mul(x, r));
    ax_mul_comm(y, q); ax_mul_comm(x, r);
}
// w = u1 + x u2,  t = v1 + y v2  ==>  <w, t> = (<u1,v1> + y <u1,v2>) + x (<u2,v1> + y <u2,v2>)
pub proof fn lemma_dot_bilin(u1: Seq<FS>, u2: Seq<FS>, x: FS, w: Seq<FS>, v1: Seq<FS>, v2: Seq<FS>, y: FS, t: Seq<FS>, n: nat)
    requires n <= u1.len(), n <= u2.len(), n <= w.len(), n <= v1.len(), n <= v2.len(), n <= t.len(),
        forall|i: int| 0 <= i < n ==> w[i] == f_add(u1[i], f_mul(x, u2[i])), forall|i: int| 0 <= i < n ==> t[i] == f_add(v1[i], f_mul(y, v2[i]))
    ensures dot(w, t, n) == f_add(f_add(dot(u1, v1, n), f_mul(y, dot(u1, v2, n))), f_mul(x, f_add(dot(u2, v1, n), f_mul(y, dot(u2, v2, n)))))
{
    lemma_dot_lin2(u1, u2, x, w, t, n);
    lemma_dot_comm(u1, t, n); lemma_dot_lin2(v1, v2, y, t, u1, n); lemma_dot_comm(v1, u1, n); lemma_dot_comm(v2, u1, n);
    lemma_dot_comm(u2, t, n); lemma_dot_lin2(v1, v2, y, t, u2, n); lemma_dot_comm(v1, u2, n); lemma_dot_comm(v2, u2, n);
}
// <a, b> over 2h entries = <a_l, b_l> + <a_r, b_r>
pub proof fn lemma_dot_split(a: Seq<FS>, b: Seq<FS>, h: nat, m: nat)
    requires h + m <= a.len(), h + m <= b.len()
    ensures dot(a, b, h + m) == f_add(dot(a, b, h), dot(a.subrange(h as int, a.len() as int), b.subrange(h as int, b.len() as int), m))
    decreases m
{
    let a2 = a.subrange(h as int, a.len() as int); let b2 = b.subrange(h as int, b.len() as int);
    if m == 0 { ax_add_zero(dot(a, b, h)); }
    else {
        lemma_dot_split(a, b, h, (m - 1) as nat);
        assert(a2[m - 1] == a[h + m - 1] && b2[m - 1] == b[h + m - 1]);
        ax_add_assoc(dot(a, b, h), dot(a2, b2, (m - 1) as nat), f_mul(a[h + m - 1], b[h + m - 1]));
    }
}
pub proof fn lemma_dot_halves(a: Seq<FS>, b: Seq<FS>)
    requires a.len() == b.len(), a.len() % 2 == 0
    ensures dot(a, b, a.len()) == f_add(dot(lhalf(a), lhalf(b), a.len() / 2), dot(rhalf(a), rhalf(b), a.len() / 2))
{
    let h = a.len() / 2;
    lemma_dot_split(a, b, h, h);
    lemma_dot_ext(a, lhalf(a), b, lhalf(b), h);
}
// THE ROUND IDENTITY: folding G and b with x and a with x^-1 changes  <a,G> + h'<a,b>  by  x^-1 L + x R
pub proof fn lemma_fold_round(g: Seq<FS>, a: Seq<FS>, b: Seq<FS>, hp: FS, x: FS, xi: FS)
    requires g.len() == a.len(), b.len() == a.len(), a.len() % 2 == 0, f_mul(x, xi) == f_one()
    ensures ipa_p(fold1(g, x), fold1(a, xi), fold1(b, x), hp)
        == f_add(ipa_p(g, a, b, hp), f_add(f_mul(ipa_lterm(g, a, b, hp), xi), f_mul(ipa_rterm(g, a, b, hp), x)))
{
    let h = a.len() / 2;
    let gl = lhalf(g); let gr = rhalf(g); let al = lhalf(a); let ar = rhalf(a); let bl = lhalf(b); let br = rhalf(b);
    let g2 = fold1(g, x); let a2 = fold1(a, xi); let b2 = fold1(b, x);
    assert(fold1(a, xi).len() == h);
    assert forall|i: int| 0 <= i < h implies g2[i] == f_add(gl[i], f_mul(x, gr[i])) && a2[i] == f_add(al[i], f_mul(xi, ar[i])) && b2[i] == f_add(bl[i], f_mul(x, br[i])) by {}
    let p = dot(gl, al, h); let q = dot(gl, ar, h); let r = dot(gr, al, h); let s = dot(gr, ar, h);
    let p2 = dot(al, bl, h); let q2 = dot(al, br, h); let r2 = dot(ar, bl, h); let s2 = dot(ar, br, h);
    lemma_dot_bilin(gl, gr, x, g2, al, ar, xi, a2, h);
    lemma_bilin_alg(p, q, r, s, x, xi);
    assert(dot(g2, a2, h) == f_add(f_add(p, s), f_add(f_mul(q, xi), f_mul(r, x))));
    ax_mul_comm(x, xi);
    lemma_dot_bilin(al, ar, xi, a2, bl, br, x, b2, h);
    lemma_bilin_alg(p2, q2, r2, s2, xi, x);
    ax_add_comm(f_mul(q2, x), f_mul(r2, xi));
    assert(dot(a2, b2, h) == f_add(f_add(p2, s2), f_add(f_mul(r2, xi), f_mul(q2, x))));
    lemma_dot_halves(g, a); lemma_dot_halves(a, b);
    assert(dot(g, a, a.len()) == f_add(p, s));
    assert(dot(a, b, a.len()) == f_add(p2, s2));
    // (P1 + C1) + hp (P2 + C2) == (P1 + hp P2) + (C1 + hp C2),   C1 + hp C2 == (q + hp r2) xi + (r + hp q2) x
    let c1 = f_add(f_mul(q, xi), f_mul(r, x)); let c2 = f_add(f_mul(r2, xi), f_mul(q2, x));
    ax_distrib(hp, f_add(p2, s2), c2);
    lemma_add_swap(f_add(p, s), c1, f_mul(hp, f_add(p2, s2)), f_mul(hp, c2));
    ax_distrib(hp, f_mul(r2, xi), f_mul(q2, x));
    ax_mul_assoc(hp, r2, xi); ax_mul_assoc(hp, q2, x);
    lemma_add_swap(f_mul(q, xi), f_mul(r, x), f_mul(f_mul(hp, r2), xi), f_mul(f_mul(hp, q2), x));
    ax_mul_comm(f_add(q, f_mul(hp, r2)), xi); ax_distrib(xi, q, f_mul(hp, r2)); ax_mul_comm(xi, q); ax_mul_comm(xi, f_mul(hp, r2));
    ax_mul_comm(f_add(r, f_mul(hp, q2)), x); ax_distrib(x, r, f_mul(hp, q2)); ax_mul_comm(x, r); ax_mul_comm(x, f_mul(hp, q2));
    lemma_dot_comm(ar, bl, h); lemma_dot_comm(al, br, h);
}

// ---- what the folded vector is, in closed form ----
// sum_{t < T} c[t] * g[t*m + j]
pub open spec fn ssum(c: Seq<FS>, g: Seq<FS>, m: int, j: int, t: nat) -> FS decreases t {
    if t == 0 { f_zero() } else { f_add(ssum(c, g, m, j, (t - 1) as nat), f_mul(c[t - 1], g[(t - 1) * m + j])) }
}
pub proof fn lemma_ssum_pairs(c: Seq<FS>, c1: Seq<FS>, g: Seq<FS>, m1: int, j: int, x: FS, tt: nat)
    requires c.len() >= 2 * tt, c1.len() >= tt, m1 >= 1, 0 <= j < m1,
        forall|t: int| 0 <= t < tt ==> c[2 * t] == #[trigger] c1[t] && c[2 * t + 1] == f_mul(c1[t], x)
    ensures ssum(c, g, m1, j, 2 * tt) == f_add(ssum(c1, g, 2 * m1, j, tt), f_mul(x, ssum(c1, g, 2 * m1, j + m1, tt)))
    decreases tt
{
    if tt == 0 { lemma_mul_zero(x); ax_add_zero(f_zero()); }
    else {
        let t = (tt - 1) as nat; let ti = t as int;
        lemma_ssum_pairs(c, c1, g, m1, j, x, t);
        let s1 = ssum(c1, g, 2 * m1, j, t); let s2 = ssum(c1, g, 2 * m1, j + m1, t);
        assert((2 * ti) * m1 + j == ti * (2 * m1) + j) by (nonlinear_arith);
        assert((2 * ti + 1) * m1 + j == ti * (2 * m1) + (j + m1)) by (nonlinear_arith);
        let ga = g[ti * (2 * m1) + j]; let gb = g[ti * (2 * m1) + (j + m1)];
        assert(c[2 * ti] == c1[ti] && c[2 * ti + 1] == f_mul(c1[ti], x));
        assert(ssum(c, g, m1, j, (2 * t + 1) as nat) == f_add(ssum(c, g, m1, j, 2 * t), f_mul(c[2 * ti], g[(2 * ti) * m1 + j])));
        assert(ssum(c, g, m1, j, 2 * tt) == f_add(ssum(c, g, m1, j, (2 * t + 1) as nat), f_mul(c[2 * ti + 1], g[(2 * ti + 1) * m1 + j])));
        let u = f_mul(c1[ti], ga); let w = f_mul(c1[ti], gb);
        assert(f_mul(f_mul(c1[ti], x), gb) == f_mul(x, w)) by { ax_mul_comm(c1[ti], x); ax_mul_assoc(x, c1[ti], gb); }
        // ((s1 + x s2) + u) + x w == (s1 + u) + x (s2 + w)
        ax_add_assoc(f_add(s1, f_mul(x, s2)), u, f_mul(x, w));
        lemma_add_swap(s1, f_mul(x, s2), u, f_mul(x, w));
        ax_distrib(x, s2, w);
    }
}
pub proof fn lemma_ssum_dot(c: Seq<FS>, g: Seq<FS>, t: nat)
    requires t <= c.len(), t <= g.len()
    ensures ssum(c, g, 1, 0, t) == dot(g, c, t)
    decreases t
{ if t > 0 { lemma_ssum_dot(c, g, (t - 1) as nat); ax_mul_comm(c[t - 1], g[t - 1]); assert((t - 1) * 1 + 0 == t - 1); } }
// `cur` is what r = u.len() folding rounds with the challenges u make of g0:  entry j is the scp_coeffs(u)-weighted sum of the entries j, j + m, j + 2m, .. of g0
#[verifier::opaque]
pub open spec fn folded(g0: Seq<FS>, u: Seq<FS>, cur: Seq<FS>) -> bool {
    let m = cur.len(); let tt = vstd::arithmetic::power2::pow2(u.len());
    m * tt == g0.len() && forall|j: int| 0 <= j < m ==> #[trigger] cur[j] == ssum(scp_coeffs(u), g0, m as int, j, tt)
}
pub proof fn lemma_folded_init(g0: Seq<FS>)
    ensures folded(g0, Seq::<FS>::empty(), g0)
{
    reveal(folded); reveal(scp_coeffs);
    vstd::arithmetic::power2::lemma2_to64();
    let u = Seq::<FS>::empty(); let c = scp_coeffs(u);
    assert(c.len() == 1 && c[0] == f_one());
    assert forall|j: int| 0 <= j < g0.len() implies #[trigger] g0[j] == ssum(c, g0, g0.len() as int, j, 1) by {
        assert(ssum(c, g0, g0.len() as int, j, 1) == f_add(ssum(c, g0, g0.len() as int, j, 0), f_mul(c[0], g0[0 * g0.len() + j])));
        ax_mul_comm(f_one(), g0[j]); ax_mul_one(g0[j]); ax_add_comm(f_zero(), g0[j]); ax_add_zero(g0[j]);
    }
}
pub proof fn lemma_folded_step(g0: Seq<FS>, u: Seq<FS>, cur: Seq<FS>, x: FS, next: Seq<FS>)
    requires folded(g0, u, cur), cur.len() % 2 == 0, next =~= fold1(cur, x)
    ensures folded(g0, u.push(x), next)
{
    reveal(folded);
    let m = cur.len() as int; let m1 = m / 2; let r = u.len(); let tt = vstd::arithmetic::power2::pow2(r);
    let u2 = u.push(x); let c = scp_coeffs(u2); let c1 = scp_coeffs(u);
    assert(u2.take(u2.len() - 1) =~= u);
    lemma_scp_coeffs_pairs(u2);
    vstd::arithmetic::power2::lemma_pow2_unfold((r + 1) as nat);
    assert(m1 * (2 * tt) == m * tt) by (nonlinear_arith) requires m == 2 * m1;
    assert forall|j: int| 0 <= j < m1 implies #[trigger] next[j] == ssum(c, g0, m1, j, 2 * tt) by {
        lemma_ssum_pairs(c, c1, g0, m1, j, x, tt);
        assert(cur[j] == ssum(c1, g0, m, j, tt));
        assert(cur[j + m1] == ssum(c1, g0, m, j + m1, tt));
    }
}
pub proof fn lemma_folded_final(g0: Seq<FS>, u: Seq<FS>, cur: Seq<FS>)
    requires folded(g0, u, cur), cur.len() == 1
    ensures g0.len() == vstd::arithmetic::power2::pow2(u.len()), cur[0] == dot(g0, scp_coeffs(u), g0.len())
{
    reveal(folded);
    assert(scp_coeffs(u).len() == vstd::arithmetic::power2::pow2(u.len())) by { reveal(scp_coeffs); }
    lemma_ssum_dot(scp_coeffs(u), g0, g0.len());
}
// the powers 1, z, z^2, ..: their scp_coeffs-weighted sum is the check polynomial at z
pub proof fn lemma_dot_powers(b0: Seq<FS>, c: Seq<FS>, z: FS, n: nat)
    requires n <= b0.len(), n <= c.len(), forall|i: int| 0 <= i < n ==> b0[i] == f_pow(z, i as nat)
    ensures dot(b0, c, n) == peval(c, z, n)
    decreases n
{ if n > 0 { lemma_dot_powers(b0, c, z, (n - 1) as nat); ax_mul_comm(b0[n - 1], c[n - 1]); } }
