// ===== spec/lc_utils_spec.rs : specification functions for linear_codes::utils (oracle side) =====
pub open spec fn pow256(k: nat) -> nat decreases k { if k == 0 { 1 } else { 256 * pow256((k - 1) as nat) } }
// big-endian value of a byte string
pub open spec fn be_value(b: Seq<u8>, k: nat) -> nat decreases k { if k == 0 { 0 } else { 256 * be_value(b, (k - 1) as nat) + b[k - 1] as nat } }
// sponge state after j rounds of (squeeze nb bytes; absorb them)
pub open spec fn idx_state(s: SS, nb: nat, j: nat) -> SS decreases j {
    if j == 0 { s } else { let p = idx_state(s, nb, (j - 1) as nat); sp_absorb(sp_sqb_next(p, nb), AbsData::Bytes(sp_sqb(p, nb))) }
}
pub open spec fn get_num_bytes_spec(n: usize) -> nat { ((bitlen(n as nat) + 7) / 8) as nat }
pub uninterp spec fn MBS() -> nat;   // F::MODULUS_BIT_SIZE
pub open spec fn t_residual(sec_param: int, n: int) -> real { r_pow(2real, -sec_param) - (n as real) / r_pow(2real, MBS() as int) }   // 2^-lambda - n/|F|
pub open spec fn t_base(d: (usize, usize)) -> real { 1real - (d.0 as real) / (2real * (d.1 as real)) }                                  // 1 - d/2 with d = d0/d1
pub open spec fn t_params_ok(sec_param: int, d: (usize, usize), n: int) -> bool {
    t_residual(sec_param, n) > 0real && r_log2(t_residual(sec_param, n)) != 0real && d.1 != 0 && t_base(d) > 0real && r_log2(t_base(d)) != 0real
}
pub open spec fn t_star(sec_param: int, d: (usize, usize), n: int) -> int { r_ceil((r_log2(t_residual(sec_param, n)) - 1real) / r_log2(t_base(d))) }

// the value calculate_t returns on usable parameters: t* clamped to [0, n]
pub open spec fn t_value(sec_param: int, d: (usize, usize), n: int) -> int { let ts = t_star(sec_param, d, n); if ts <= 0 { 0 } else if ts < n { ts } else { n } }
