// ===== spec/ipa_commit_spec.rs : what InnerProductArgPC::commit returns for one polynomial (postcondition of units/ipa_commit.rs; hypothesis of the completeness lemma) =====
pub open spec fn ipa_commit_one(ck: &CommitterKey, p: &LabeledPolynomial, c: &LabeledCommitment<Commitment>, st: &Randomness, id: int, pos: nat) -> bool {
    let d = p.polynomial.degree_spec();
    c.label == p.label && c.degree_bound == p.degree_bound
    && (c.commitment.shifted_comm is Some) == (p.degree_bound is Some)
    // plain part: the key-defined linear map of the coefficients plus rand * S; rand is a fresh draw iff hiding, else zero
    && st.rand@ == (if p.hiding_bound is Some { draw(id, pos) } else { f_zero() })
    && c.commitment.comm@ == f_add(msm(ck.comm_key@.subrange(0, (d + 1) as int), p.polynomial.cv(), min((d + 1) as nat, p.polynomial.len())), f_mul(ck.s@, st.rand@))
    // shifted part: the same coefficients under the last (bound + 1) key elements, blinded by an independent draw iff hiding
    && (st.shifted_rand is Some) == (p.hiding_bound is Some && p.degree_bound is Some)
    && (st.shifted_rand is Some ==> st.shifted_rand->Some_0@ == draw(id, pos + 1))
    && (p.degree_bound is Some ==> {
        let w = ck.comm_key@.subrange(ck.comm_key@.len() - 1 - p.degree_bound->Some_0, ck.comm_key@.len() as int);
        c.commitment.shifted_comm->Some_0@ == f_add(msm(w, p.polynomial.cv(), min(w.len(), p.polynomial.len())),
            if st.shifted_rand is Some { f_mul(ck.s@, st.shifted_rand->Some_0@) } else { f_zero() }) })
}
