// ===== spec/sonic_spec.rs : Sonic verifier relation (shared by check and batch_check units) =====
// ======================= specification (Sonic [MBKM19] / AuroraLight variant used by arkworks) =======================
pub open spec fn sonic_shift_of(vk: &VerifierKey, d: usize) -> Option<FS> {
    match vk.degree_bounds_and_neg_powers_of_h {
        Some(v) => if exists|i: int| 0 <= i < v@.len() && v@[i].0 == d { Some(v@[choose|i: int| 0 <= i < v@.len() && v@[i].0 == d].1@) } else { None },
        None => None,
    }
}
pub open spec fn sonic_table_sorted_v(v: Seq<(usize, G2Affine)>) -> bool { forall|i: int, j: int| 0 <= i < j < v.len() ==> v[i].0 < v[j].0 }
pub open spec fn sonic_table_sorted(vk: &VerifierKey) -> bool { vk.degree_bounds_and_neg_powers_of_h is Some ==> sonic_table_sorted_v(vk.degree_bounds_and_neg_powers_of_h->Some_0@) }
// challenges: xi_0 squeezed before the loop, xi_{i+1} after the i-th commitment
// bucket for degree bound d after k commitments:  sum_{i<k, d_i = d} [r] * xi_i * C_i
pub open spec fn sonic_bucket(cs: Seq<&LabeledCommitment<Commitment>>, s: SS, rz: Option<FS>, d: Option<usize>, k: nat) -> FS decreases k {
    if k == 0 { f_zero() } else { let j = (k - 1) as nat;
        if cs[j as int].degree_bound == d {
            let t = f_mul(cs[j as int].commitment.0@, sp_chal(s, j));
            f_add(sonic_bucket(cs, s, rz, d, j), match rz { Some(r) => f_mul(t, r), None => t })
        } else { sonic_bucket(cs, s, rz, d, j) } }
}
pub open spec fn sonic_has_bound(cs: Seq<&LabeledCommitment<Commitment>>, d: Option<usize>, k: nat) -> bool { exists|i: int| 0 <= i < k && (#[trigger] cs[i]).degree_bound == d }
pub open spec fn sonic_values(vs: Seq<Fr>, s: SS, k: nat) -> FS decreases k {
    if k == 0 { f_zero() } else { let j = (k - 1) as nat; f_add(sonic_values(vs, s, j), f_mul(vs[j as int]@, sp_chal(s, j))) }
}
pub open spec fn sonic_adjusted(vk: &VerifierKey, z: FS, pr: &kzg10::Proof, cv: FS) -> FS {
    let a = f_sub(f_mul(vk.g@, cv), f_mul(pr.w@, z));
    match pr.random_v { Some(rv) => f_add(a, f_mul(vk.gamma_g@, rv@)), None => a }
}

pub proof fn lemma_sonic_bucket_zero(cs: Seq<&LabeledCommitment<Commitment>>, s: SS, rz: Option<FS>, d: Option<usize>, k: nat)
    requires !sonic_has_bound(cs, d, k)
    ensures sonic_bucket(cs, s, rz, d, k) == f_zero()
    decreases k
{
    if k > 0 {
        assert(!sonic_has_bound(cs, d, (k - 1) as nat)) by { if sonic_has_bound(cs, d, (k - 1) as nat) { let i = choose|i: int| 0 <= i < k - 1 && (#[trigger] cs[i]).degree_bound == d; assert(0 <= i < k && cs[i].degree_bound == d); } }
        lemma_sonic_bucket_zero(cs, s, rz, d, (k - 1) as nat);
        assert(cs[k - 1].degree_bound != d) by { if cs[k - 1].degree_bound == d { assert(0 <= k - 1 < k && (#[trigger] cs[k - 1]).degree_bound == d); } }
    }
}
pub open spec fn sonic_unsupported(vk: &VerifierKey, d: Option<usize>) -> bool { d is Some && sonic_shift_of(vk, d->Some_0) is None }
pub open spec fn sonic_shift(vk: &VerifierKey, d: Option<usize>) -> FS { match d { Some(b) => sonic_shift_of(vk, b)->Some_0, None => vk.prepared_h@ } }
pub open spec fn sonic_pairing_sum(e: Seq<(Option<usize>, G1)>, vk: &VerifierKey, k: nat) -> FS decreases k {
    if k == 0 { f_zero() } else { f_add(sonic_pairing_sum(e, vk, (k - 1) as nat), f_mul(e[k - 1].1@, sonic_shift(vk, e[k - 1].0))) }
}
