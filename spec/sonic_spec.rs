// ===== spec/sonic_spec.rs : Sonic verifier relation (shared by check and batch_check units) =====
// ======================= specification (Sonic [MBKM19] / AuroraLight variant used by arkworks) =======================
pub open spec fn sonic_shift_of(vk: &VerifierKey, d: usize) -> Option<FS> {
    match vk.degree_bounds_and_neg_powers_of_h {
        Some(v) => if exists|i: int| 0 <= i < v@.len() && v@[i].0 == d { Some(v@[choose|i: int| 0 <= i < v@.len() && v@[i].0 == d].1@) } else { None },
        None => None,
    }
}
pub open spec fn sonic_table_sorted_v(v: Seq<(usize, G2Affine)>) -> bool { forall|i: int, j: int| 0 <= i < j < v.len() ==> v[i].0 < v[j].0 }
pub open spec fn sonic_table_sorted(vk: &VerifierKey) -> bool { vk.degree_bounds_and_neg_powers_of_h is Some ==> sonic_table_sorted_v(vk.degree_bounds_and_neg_powers_of_h->Some_0@) }
// challenges: xi_0 squeezed before the loop, xi_{i+1} after the i-th commitment
// bucket for degree bound d after k commitments:  sum_{i<k, d_i = d} [r] * xi_i * C_i
pub open spec fn sonic_bucket(cs: Seq<&LabeledCommitment<Commitment>>, s: SS, rz: Option<FS>, d: Option<usize>, k: nat) -> FS decreases k {
    if k == 0 { f_zero() } else { let j = (k - 1) as nat;
        if cs[j as int].degree_bound == d {
            let t = f_mul(cs[j as int].commitment.0@, sp_chal(s, j));
            f_add(sonic_bucket(cs, s, rz, d, j), match rz { Some(r) => f_mul(t, r), None => t })
        } else { sonic_bucket(cs, s, rz, d, j) } }
}
pub open spec fn sonic_has_bound(cs: Seq<&LabeledCommitment<Commitment>>, d: Option<usize>, k: nat) -> bool { exists|i: int| 0 <= i < k && (#[trigger] cs[i]).degree_bound == d }
pub open spec fn sonic_values(vs: Seq<Fr>, s: SS, k: nat) -> FS decreases k {
    if k == 0 { f_zero() } else { let j = (k - 1) as nat; f_add(sonic_values(vs, s, j), f_mul(vs[j as int]@, sp_chal(s, j))) }
}
pub open spec fn sonic_adjusted(vk: &VerifierKey, z: FS, pr: &kzg10::Proof, cv: FS) -> FS {
    let a = f_sub(f_mul(vk.g@, cv), f_mul(pr.w@, z));
    match pr.random_v { Some(rv) => f_add(a, f_mul(vk.gamma_g@, rv@)), None => a }
}

pub proof fn lemma_sonic_bucket_zero(cs: Seq<&LabeledCommitment<Commitment>>, s: SS, rz: Option<FS>, d: Option<usize>, k: nat)
    requires !sonic_has_bound(cs, d, k)
    ensures sonic_bucket(cs, s, rz, d, k) == f_zero()
    decreases k
{
    if k > 0 {
        assert(!sonic_has_bound(cs, d, (k - 1) as nat)) by { if sonic_has_bound(cs, d, (k - 1) as nat) { let i = choose|i: int| 0 <= i < k - 1 && (#[trigger] cs[i]).degree_bound == d; assert(0 <= i < k && cs[i].degree_bound == d); } }
        lemma_sonic_bucket_zero(cs, s, rz, d, (k - 1) as nat);
        assert(cs[k - 1].degree_bound != d) by { if cs[k - 1].degree_bound == d { assert(0 <= k - 1 < k && (#[trigger] cs[k - 1]).degree_bound == d); } }
    }
}
pub open spec fn sonic_unsupported(vk: &VerifierKey, d: Option<usize>) -> bool { d is Some && sonic_shift_of(vk, d->Some_0) is None }
pub open spec fn sonic_shift(vk: &VerifierKey, d: Option<usize>) -> FS { match d { Some(b) => sonic_shift_of(vk, b)->Some_0, None => vk.prepared_h@ } }
pub open spec fn sonic_pairing_sum(e: Seq<(Option<usize>, G1)>, vk: &VerifierKey, k: nat) -> FS decreases k {
    if k == 0 { f_zero() } else { f_add(sonic_pairing_sum(e, vk, (k - 1) as nat), f_mul(e[k - 1].1@, sonic_shift(vk, e[k - 1].0))) }
}

// ---------------- regrouping: the sum over the buckets is the sum over the commitments (used by the completeness lemma) ----------------
// S(e, m, k) = sum_{i < k} bucket(e[i].key, first m commitments) * shift(e[i].key)
pub open spec fn sonic_bsum(e: Seq<(Option<usize>, G1)>, cs: Seq<&LabeledCommitment<Commitment>>, s: SS, vk: &VerifierKey, m: nat, k: nat) -> FS decreases k {
    if k == 0 { f_zero() } else { f_add(sonic_bsum(e, cs, s, vk, m, (k - 1) as nat), f_mul(sonic_bucket(cs, s, None, e[k - 1].0, m), sonic_shift(vk, e[k - 1].0))) }
}
// T(n) = sum_{i < n} (C_i xi_i) * shift(d_i)
pub open spec fn sonic_csum(cs: Seq<&LabeledCommitment<Commitment>>, s: SS, vk: &VerifierKey, n: nat) -> FS decreases n {
    if n == 0 { f_zero() } else { f_add(sonic_csum(cs, s, vk, (n - 1) as nat), f_mul(f_mul(cs[n - 1].commitment.0@, sp_chal(s, (n - 1) as nat)), sonic_shift(vk, cs[n - 1].degree_bound))) }
}
pub open spec fn sonic_keys_distinct(e: Seq<(Option<usize>, G1)>) -> bool { forall|i: int, j: int| 0 <= i < j < e.len() ==> e[i].0 != e[j].0 }
pub open spec fn sonic_has_key(e: Seq<(Option<usize>, G1)>, d: Option<usize>, k: nat) -> bool { exists|i: int| 0 <= i < k && (#[trigger] e[i]).0 == d }
pub proof fn lemma_sonic_bsum_step(e: Seq<(Option<usize>, G1)>, cs: Seq<&LabeledCommitment<Commitment>>, s: SS, vk: &VerifierKey, m: nat, k: nat)
    requires m >= 1, k <= e.len(), sonic_keys_distinct(e)
    ensures sonic_bsum(e, cs, s, vk, m, k) == f_add(sonic_bsum(e, cs, s, vk, (m - 1) as nat, k),
        if sonic_has_key(e, cs[m - 1].degree_bound, k) { f_mul(f_mul(cs[m - 1].commitment.0@, sp_chal(s, (m - 1) as nat)), sonic_shift(vk, cs[m - 1].degree_bound)) } else { f_zero() })
    decreases k
{
    let m1 = (m - 1) as nat; let d = cs[m - 1].degree_bound; let t = f_mul(cs[m - 1].commitment.0@, sp_chal(s, m1)); let sh = sonic_shift(vk, d);
    if k == 0 { ax_add_zero(f_zero()); }
    else {
        let k1 = (k - 1) as nat; let key = e[k - 1].0;
        lemma_sonic_bsum_step(e, cs, s, vk, m, k1);
        let a1 = sonic_bsum(e, cs, s, vk, m1, k1); let b1 = sonic_bucket(cs, s, None, key, m1); let shk = sonic_shift(vk, key);
        if key == d {
            // no earlier entry has this key
            assert(!sonic_has_key(e, d, k1)) by { if sonic_has_key(e, d, k1) { let i = choose|i: int| 0 <= i < k1 && (#[trigger] e[i]).0 == d; assert(e[i].0 != e[k - 1].0); } }
            assert(sonic_has_key(e, d, k)) by { assert(e[k - 1].0 == d); }
            assert(sonic_bucket(cs, s, None, key, m) == f_add(b1, t));
            ax_add_zero(a1);
            // a1 + (b1 + t) sh == (a1 + b1 sh) + t sh
            ax_mul_comm(f_add(b1, t), sh); ax_distrib(sh, b1, t); ax_mul_comm(sh, b1); ax_mul_comm(sh, t);
            ax_add_assoc(a1, f_mul(b1, sh), f_mul(t, sh));
        } else {
            assert(sonic_bucket(cs, s, None, key, m) == b1);
            assert(sonic_has_key(e, d, k) == sonic_has_key(e, d, k1)) by {
                if sonic_has_key(e, d, k) { let i = choose|i: int| 0 <= i < k && (#[trigger] e[i]).0 == d; assert(i != k - 1); assert(0 <= i < k1 && e[i].0 == d); }
                if sonic_has_key(e, d, k1) { let i = choose|i: int| 0 <= i < k1 && (#[trigger] e[i]).0 == d; assert(0 <= i < k && e[i].0 == d); }
            }
            let x = if sonic_has_key(e, d, k1) { f_mul(t, sh) } else { f_zero() };
            // (a1 + x) + b1 shk == (a1 + b1 shk) + x
            ax_add_assoc(a1, x, f_mul(b1, shk)); ax_add_comm(x, f_mul(b1, shk)); ax_add_assoc(a1, f_mul(b1, shk), x);
        }
    }
}
pub proof fn lemma_sonic_bsum_zero(e: Seq<(Option<usize>, G1)>, cs: Seq<&LabeledCommitment<Commitment>>, s: SS, vk: &VerifierKey, k: nat)
    requires k <= e.len()
    ensures sonic_bsum(e, cs, s, vk, 0, k) == f_zero()
    decreases k
{ if k > 0 { lemma_sonic_bsum_zero(e, cs, s, vk, (k - 1) as nat); ax_mul_comm(f_zero(), sonic_shift(vk, e[k - 1].0)); lemma_mul_zero(sonic_shift(vk, e[k - 1].0)); ax_add_zero(f_zero()); } }
pub proof fn lemma_sonic_bsum_total(e: Seq<(Option<usize>, G1)>, cs: Seq<&LabeledCommitment<Commitment>>, s: SS, vk: &VerifierKey, m: nat)
    requires sonic_keys_distinct(e), forall|i: int| 0 <= i < m ==> sonic_has_key(e, (#[trigger] cs[i]).degree_bound, e.len())
    ensures sonic_bsum(e, cs, s, vk, m, e.len()) == sonic_csum(cs, s, vk, m)
    decreases m
{
    if m == 0 { lemma_sonic_bsum_zero(e, cs, s, vk, e.len()); }
    else { lemma_sonic_bsum_total(e, cs, s, vk, (m - 1) as nat); lemma_sonic_bsum_step(e, cs, s, vk, m, e.len()); assert(sonic_has_key(e, cs[m - 1].degree_bound, e.len())); }
}
// the pairing sum `check_elems` computes over the map's entries is S(e, n, |e|)
pub proof fn lemma_sonic_pairing_sum_is_bsum(e: Seq<(Option<usize>, G1)>, cs: Seq<&LabeledCommitment<Commitment>>, s: SS, vk: &VerifierKey, n: nat, k: nat)
    requires k <= e.len(), forall|i: int| 0 <= i < e.len() ==> (#[trigger] e[i]).1@ == f_add(f_zero(), sonic_bucket(cs, s, None, e[i].0, n))
    ensures sonic_pairing_sum(e, vk, k) == sonic_bsum(e, cs, s, vk, n, k)
    decreases k
{ if k > 0 { lemma_sonic_pairing_sum_is_bsum(e, cs, s, vk, n, (k - 1) as nat); let b = sonic_bucket(cs, s, None, e[k - 1].0, n); ax_add_comm(f_zero(), b); ax_add_zero(b); } }

// ---------------- C02: the accepted combined value is unique, and so is each claimed value with a non-zero challenge ----------------
pub proof fn lemma_sonic_values_position(vs: Seq<Fr>, vs2: Seq<Fr>, s: SS, k: nat, i: int)
    requires k <= vs.len(), k <= vs2.len(), 0 <= i, forall|j: int| 0 <= j < k && j != i ==> vs[j]@ == vs2[j]@
    ensures sonic_values(vs, s, k) == f_add(sonic_values(vs2, s, k), if i < k { f_mul(f_sub(vs[i]@, vs2[i]@), sp_chal(s, i as nat)) } else { f_zero() })
    decreases k
{
    if k == 0 { ax_add_zero(f_zero()); }
    else {
        let j = (k - 1) as nat; let ji = j as int; let xi = sp_chal(s, j);
        lemma_sonic_values_position(vs, vs2, s, j, i);
        let a = sonic_values(vs2, s, j);
        if ji == i {
            ax_add_zero(a);
            let v = vs[ji]@; let v2 = vs2[ji]@;
            ax_mul_comm(f_sub(v, v2), xi); lemma_distrib_sub(xi, v, v2); ax_mul_comm(xi, v); ax_mul_comm(xi, v2);
            let p = f_mul(v, xi); let p2 = f_mul(v2, xi);
            ax_add_assoc(a, p2, f_sub(p, p2)); ax_add_comm(p, f_neg(p2)); ax_add_assoc(p2, f_neg(p2), p); ax_add_neg(p2); ax_add_comm(f_zero(), p); ax_add_zero(p);
        } else {
            let x = if i < ji { f_mul(f_sub(vs[i]@, vs2[i]@), sp_chal(s, i as nat)) } else { f_zero() };
            let y = f_mul(vs2[ji]@, xi);
            ax_add_assoc(a, x, y); ax_add_comm(x, y); ax_add_assoc(a, y, x);
        }
    }
}
// the equation `check_elems` decides, as a function of the combined value cv (everything else fixed)
pub open spec fn sonic_eq(ps: FS, vk: &VerifierKey, z: FS, pr: &kzg10::Proof, cv: FS) -> bool {
    f_add(f_add(ps, pair(f_neg(f_add(f_zero(), sonic_adjusted(vk, z, pr, cv))), vk.prepared_h@)), pair(f_neg(f_add(f_zero(), pr.w@)), vk.prepared_beta_h@)) == f_zero()
}
pub proof fn lemma_sonic_combined_value_unique(ps: FS, vk: &VerifierKey, z: FS, pr: &kzg10::Proof, cv1: FS, cv2: FS)
    requires vk.g@ != f_zero(), vk.prepared_h@ != f_zero(), sonic_eq(ps, vk, z, pr, cv1), sonic_eq(ps, vk, z, pr, cv2)
    ensures cv1 == cv2
{
    let h = vk.prepared_h@; let t = pair(f_neg(f_add(f_zero(), pr.w@)), vk.prepared_beta_h@);
    let a1 = sonic_adjusted(vk, z, pr, cv1); let a2 = sonic_adjusted(vk, z, pr, cv2);
    let p1 = pair(f_neg(f_add(f_zero(), a1)), h); let p2 = pair(f_neg(f_add(f_zero(), a2)), h);
    // (ps + p1) + t == 0 == (ps + p2) + t
    lemma_add_cancel(f_add(ps, p1), f_add(ps, p2), t);
    ax_add_comm(ps, p1); ax_add_comm(ps, p2);
    lemma_add_cancel(p1, p2, ps);
    lemma_mul_cancel(f_neg(f_add(f_zero(), a1)), f_neg(f_add(f_zero(), a2)), h);
    lemma_neg_neg(f_add(f_zero(), a1)); lemma_neg_neg(f_add(f_zero(), a2));
    ax_add_comm(f_zero(), a1); ax_add_zero(a1); ax_add_comm(f_zero(), a2); ax_add_zero(a2);
    assert(a1 == a2);
    let b1 = f_sub(f_mul(vk.g@, cv1), f_mul(pr.w@, z)); let b2 = f_sub(f_mul(vk.g@, cv2), f_mul(pr.w@, z));
    match pr.random_v { Some(rv) => { lemma_add_cancel(b1, b2, f_mul(vk.gamma_g@, rv@)); } None => {} }
    lemma_sub_cancel_right(f_mul(vk.g@, cv1), f_mul(vk.g@, cv2), f_mul(pr.w@, z));
    ax_mul_comm(vk.g@, cv1); ax_mul_comm(vk.g@, cv2);
    lemma_mul_cancel(cv1, cv2, vk.g@);
}
pub proof fn lemma_sonic_value_unique_at(ps: FS, vk: &VerifierKey, z: FS, pr: &kzg10::Proof, vs: Seq<Fr>, vs2: Seq<Fr>, s: SS, k: nat, i: int)
    requires vk.g@ != f_zero(), vk.prepared_h@ != f_zero(), k <= vs.len(), k <= vs2.len(), 0 <= i < k, forall|j: int| 0 <= j < k && j != i ==> vs[j]@ == vs2[j]@,
        sp_chal(s, i as nat) != f_zero(), sonic_eq(ps, vk, z, pr, sonic_values(vs, s, k)), sonic_eq(ps, vk, z, pr, sonic_values(vs2, s, k))
    ensures vs[i]@ == vs2[i]@
{
    lemma_sonic_combined_value_unique(ps, vk, z, pr, sonic_values(vs, s, k), sonic_values(vs2, s, k));
    lemma_sonic_values_position(vs, vs2, s, k, i);
    let a = sonic_values(vs2, s, k); let d = f_mul(f_sub(vs[i]@, vs2[i]@), sp_chal(s, i as nat));
    ax_add_zero(a); ax_add_comm(a, d); ax_add_comm(a, f_zero());
    lemma_add_cancel(d, f_zero(), a);
    ax_no_zero_div(f_sub(vs[i]@, vs2[i]@), sp_chal(s, i as nat));
    lemma_sub_zero_eq(vs[i]@, vs2[i]@);
}
