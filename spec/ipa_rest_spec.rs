// ===== spec/ipa_rest_spec.rs : what the folding rounds of InnerProductArgPC::open produce (shared by units/ipa_open.rs and units/ipa_open_fold.rs) =====
pub open spec fn zpows(z: FS, n: nat) -> Seq<FS> { Seq::new(n, |i: int| f_pow(z, i as nat)) }
pub open spec fn padz(c: Seq<FS>, n: nat) -> Seq<FS> { Seq::new(n, |i: int| if i < c.len() { c[i] } else { f_zero() }) }
// The proof the rounds produce, for the coefficient vector a0 (zero-padded to the key length n = 2^k), first round challenge `first` and h' = first * h:
// with P0 = <a0, G> + h' * a0(z) - the commitment the verifier starts its rounds from - the verifier's folded commitment (its own challenges u_i = RO(u_{i-1}, L_i, R_i))
// equals  c * U + h' * c * h_u(z),  and U is the key the verifier recomputes from the challenges:  exactly what `succinct_check` and `check` test.
pub open spec fn ipa_rest_rel(ck: &CommitterKey, a0: Seq<FS>, z: FS, first: FS, pr: &Proof) -> bool {
    let n = ck.comm_key@.len(); let k = pr.l_vec@.len(); let hp = f_mul(ck.h@, first);
    let u = ipa_rcs(first, pr.l_vec@, pr.r_vec@, k);
    let p0 = f_add(msm(ck.comm_key@, a0, n), f_mul(hp, peval(a0, z, n)));
    pr.r_vec@.len() == k && vstd::arithmetic::power2::pow2(k) == n
    && ipa_rcomm(p0, first, pr.l_vec@, pr.r_vec@, k) == f_add(f_mul(pr.final_comm_key@, pr.c@), f_mul(hp, f_mul(scp_eval(u, z, k), pr.c@)))
    && pr.final_comm_key@ == msm(ck.comm_key@, scp_coeffs(u), n)
}
