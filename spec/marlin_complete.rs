// ===== spec/marlin_complete.rs : PROVED - completeness algebra of MarlinKZG10 (commit / open / check), from the field axioms =====
// The prover's challenge schedule: xi_j for the plain part of polynomial j, xi'_j for its degree-bounded (shifted) part.
pub open spec fn m_xi(lps: Seq<&LabeledPolynomial>, s: SS, j: nat) -> FS { sp_chal(s, open_nsq(lps, j)) }
pub open spec fn m_xi1(lps: Seq<&LabeledPolynomial>, s: SS, j: nat) -> FS { sp_chal(s, open_nsq(lps, j) + 1) }
// X^(largest enforced bound - d) * w(X), as shift_polynomial returns it
pub open spec fn m_shw(ck: &CommitterKey, d: usize, w: &Poly, x: FS) -> FS {
    if w.is_zero_spec() { f_zero() } else { f_mul(f_pow(x, (ck.enforced_degree_bounds->Some_0@.last() - d) as nat), w.ev(x)) }
}
// the five running sums of MarlinKZG10::open, as functions of the evaluation point x
//   p = sum xi_j p_j          r = sum xi_j r_j
//   shifted_w = sum xi'_j X^(maxb-d_j) w_j     shifted_r = sum xi'_j sr_j     shifted_r_witness = sum xi'_j hw_j
pub open spec fn m_cp(lps: Seq<&LabeledPolynomial>, s: SS, k: nat, x: FS) -> FS decreases k {
    if k == 0 { f_zero() } else { let j = (k - 1) as nat; f_add(m_cp(lps, s, j, x), f_mul(m_xi(lps, s, j), lps[j as int].polynomial.ev(x))) }
}
pub open spec fn m_cr(lps: Seq<&LabeledPolynomial>, sts: Seq<&Randomness>, s: SS, k: nat, x: FS) -> FS decreases k {
    if k == 0 { f_zero() } else { let j = (k - 1) as nat; f_add(m_cr(lps, sts, s, j, x), f_mul(m_xi(lps, s, j), sts[j as int].rand.blinding_polynomial.ev(x))) }
}
pub open spec fn m_csw(ck: &CommitterKey, lps: Seq<&LabeledPolynomial>, ws: Seq<Poly>, s: SS, k: nat, x: FS) -> FS decreases k {
    if k == 0 { f_zero() } else { let j = (k - 1) as nat;
        match lps[j as int].degree_bound {
            Some(d) => f_add(m_csw(ck, lps, ws, s, j, x), f_mul(m_xi1(lps, s, j), m_shw(ck, d, &ws[j as int], x))),
            None => m_csw(ck, lps, ws, s, j, x),
        } }
}
pub open spec fn m_csr(lps: Seq<&LabeledPolynomial>, sts: Seq<&Randomness>, s: SS, k: nat, x: FS) -> FS decreases k {
    if k == 0 { f_zero() } else { let j = (k - 1) as nat;
        match lps[j as int].degree_bound {
            Some(d) => f_add(m_csr(lps, sts, s, j, x), f_mul(m_xi1(lps, s, j), sts[j as int].shifted_rand->Some_0.blinding_polynomial.ev(x))),
            None => m_csr(lps, sts, s, j, x),
        } }
}
pub open spec fn m_csrw(lps: Seq<&LabeledPolynomial>, hws: Seq<Option<Poly>>, s: SS, k: nat, x: FS) -> FS decreases k {
    if k == 0 { f_zero() } else { let j = (k - 1) as nat;
        if lps[j as int].degree_bound is Some && hws[j as int] is Some { f_add(m_csrw(lps, hws, s, j, x), f_mul(m_xi1(lps, s, j), hws[j as int]->Some_0.ev(x))) }
        else { m_csrw(lps, hws, s, j, x) } }
}
pub open spec fn m_any_bound(lps: Seq<&LabeledPolynomial>, k: nat) -> bool decreases k {
    k > 0 && (m_any_bound(lps, (k - 1) as nat) || lps[k - 1].degree_bound is Some)
}
pub open spec fn m_max(a: nat, b: nat) -> nat { if a >= b { a } else { b } }
pub open spec fn m_rlen(sts: Seq<&Randomness>, k: nat) -> nat decreases k {
    if k == 0 { 0 } else { m_max(m_rlen(sts, (k - 1) as nat), sts[k - 1].rand.blinding_polynomial.len()) }
}
pub open spec fn m_hwlen(lps: Seq<&LabeledPolynomial>, hws: Seq<Option<Poly>>, k: nat) -> nat decreases k {
    if k == 0 { 0 } else { m_max(m_hwlen(lps, hws, (k - 1) as nat), if lps[k - 1].degree_bound is Some && hws[k - 1] is Some { hws[k - 1]->Some_0.len() } else { 0 }) }
}
// per degree-bounded polynomial: the witness w_j with p_j(X) = w_j(X)(X - z) + p_j(z), and the same for its shifted blinding polynomial
pub open spec fn m_wit_one(lp: &LabeledPolynomial, st: &Randomness, w: &Poly, hw: Option<Poly>, z: FS) -> bool {
    (forall|x: FS| lp.polynomial.ev(x) == f_add(f_mul(#[trigger] w.ev(x), f_sub(x, z)), lp.polynomial.ev(z)))
    && st.shifted_rand is Some
    && (hw is Some) == !st.shifted_rand->Some_0.blinding_polynomial.is_zero_spec()
    && (hw is Some ==> (forall|x: FS| st.shifted_rand->Some_0.blinding_polynomial.ev(x) == f_add(f_mul(#[trigger] hw->Some_0.ev(x), f_sub(x, z)), st.shifted_rand->Some_0.blinding_polynomial.ev(z))))
    && (hw is Some ==> (hw->Some_0.len() + 1 <= st.shifted_rand->Some_0.blinding_polynomial.len() || hw->Some_0.len() == 0))
}
pub open spec fn m_wit_ok(lps: Seq<&LabeledPolynomial>, sts: Seq<&Randomness>, ws: Seq<Poly>, hws: Seq<Option<Poly>>, z: FS, k: nat) -> bool {
    ws.len() >= k && hws.len() >= k
    && forall|j: int| 0 <= j < k ==> ((#[trigger] lps[j]).degree_bound is Some ==> m_wit_one(lps[j], sts[j], &ws[j], hws[j], z))
}
// everything `open` computes on the way, as one ghost record
pub ghost struct MOpenWit {
    pub ws: Seq<Poly>, pub hws: Seq<Option<Poly>>,
    pub p: Poly, pub r: kzg10::Randomness, pub pr0: kzg10::Proof,
    pub sw: Poly, pub sr: kzg10::Randomness, pub srw: Poly,
}
// WHAT MarlinKZG10::open RETURNS: the KZG10 opening of the challenge-weighted sums, plus - iff some polynomial carries a degree
// bound - the commitment to the challenge-weighted sum of the shifted witnesses under the shifted powers
pub open spec fn marlin_open_rel(ck: &CommitterKey, lps: Seq<&LabeledPolynomial>, sts: Seq<&Randomness>, z: Fr, s: SS, k: nat, res_w: FS, res_rv: Option<Fr>, g: MOpenWit) -> bool {
    m_wit_ok(lps, sts, g.ws, g.hws, z@, k)
    && (forall|x: FS| #[trigger] g.p.ev(x) == m_cp(lps, s, k, x))
    && (forall|x: FS| #[trigger] g.r.blinding_polynomial.ev(x) == m_cr(lps, sts, s, k, x))
    && g.r.blinding_polynomial.len() <= m_rlen(sts, k)
    && kzg10::open_spec_seq(ck.powers@, ck.powers_of_gamma_g@, &g.p, z, &g.r, g.pr0)
    && (!m_any_bound(lps, k) ==> (res_w == g.pr0.w@ && res_rv == g.pr0.random_v))
    && (m_any_bound(lps, k) ==> (
        ck.shifted_powers is Some
        && (forall|x: FS| #[trigger] g.sw.ev(x) == m_csw(ck, lps, g.ws, s, k, x))
        && (forall|x: FS| #[trigger] g.sr.blinding_polynomial.ev(x) == m_csr(lps, sts, s, k, x))
        && (forall|x: FS| #[trigger] g.srw.ev(x) == m_csrw(lps, g.hws, s, k, x))
        && g.sw.len() <= ck.shifted_powers->Some_0@.len()
        && g.srw.len() <= m_hwlen(lps, g.hws, k)
        && res_w == f_add(g.pr0.w@, f_add(msm(ck.shifted_powers->Some_0@, g.sw.cv(), g.sw.len()),
                                            msm(ck.powers_of_gamma_g@, g.srw.cv(), min(ck.powers_of_gamma_g@.len(), g.srw.len()))))
        && (res_rv is Some) == (g.pr0.random_v is Some)
        && (res_rv is Some ==> res_rv->Some_0@ == f_add(g.pr0.random_v->Some_0@, g.sr.blinding_polynomial.ev(z@)))))
}
pub open spec fn marlin_open_post(ck: &CommitterKey, lps: Seq<&LabeledPolynomial>, sts: Seq<&Randomness>, z: Fr, s: SS, k: nat, res: &kzg10::Proof) -> bool {
    exists|g: MOpenWit| #[trigger] marlin_open_rel(ck, lps, sts, z, s, k, res.w@, res.random_v, g)
}
// the sums over the first k polynomials only read the first k ghost witnesses
pub proof fn lemma_m_ext_x(ck: &CommitterKey, lps: Seq<&LabeledPolynomial>, ws0: Seq<Poly>, ws: Seq<Poly>, hws0: Seq<Option<Poly>>, hws: Seq<Option<Poly>>, s: SS, k: nat, x: FS)
    requires ws0.len() >= k, ws.len() >= k, hws0.len() >= k, hws.len() >= k, forall|j: int| 0 <= j < k ==> ws[j] == ws0[j] && hws[j] == hws0[j]
    ensures m_csw(ck, lps, ws, s, k, x) == m_csw(ck, lps, ws0, s, k, x), m_csrw(lps, hws, s, k, x) == m_csrw(lps, hws0, s, k, x)
    decreases k
{ if k > 0 { lemma_m_ext_x(ck, lps, ws0, ws, hws0, hws, s, (k - 1) as nat, x); } }
pub proof fn lemma_m_hwlen_ext(lps: Seq<&LabeledPolynomial>, hws0: Seq<Option<Poly>>, hws: Seq<Option<Poly>>, k: nat)
    requires hws0.len() >= k, hws.len() >= k, forall|j: int| 0 <= j < k ==> hws[j] == hws0[j]
    ensures m_hwlen(lps, hws, k) == m_hwlen(lps, hws0, k)
    decreases k
{ if k > 0 { lemma_m_hwlen_ext(lps, hws0, hws, (k - 1) as nat); } }
pub proof fn lemma_m_ext(ck: &CommitterKey, lps: Seq<&LabeledPolynomial>, sts: Seq<&Randomness>, ws0: Seq<Poly>, ws: Seq<Poly>, hws0: Seq<Option<Poly>>, hws: Seq<Option<Poly>>, s: SS, z: FS, k: nat)
    requires ws0.len() >= k, ws.len() >= k, hws0.len() >= k, hws.len() >= k, forall|j: int| 0 <= j < k ==> ws[j] == ws0[j] && hws[j] == hws0[j]
    ensures
        forall|x: FS| #[trigger] m_csw(ck, lps, ws, s, k, x) == m_csw(ck, lps, ws0, s, k, x),
        forall|x: FS| #[trigger] m_csrw(lps, hws, s, k, x) == m_csrw(lps, hws0, s, k, x),
        m_hwlen(lps, hws, k) == m_hwlen(lps, hws0, k),
        m_wit_ok(lps, sts, ws0, hws0, z, k) ==> m_wit_ok(lps, sts, ws, hws, z, k),
{
    assert forall|x: FS| #[trigger] m_csw(ck, lps, ws, s, k, x) == m_csw(ck, lps, ws0, s, k, x) by { lemma_m_ext_x(ck, lps, ws0, ws, hws0, hws, s, k, x); }
    assert forall|x: FS| #[trigger] m_csrw(lps, hws, s, k, x) == m_csrw(lps, hws0, s, k, x) by { lemma_m_ext_x(ck, lps, ws0, ws, hws0, hws, s, k, x); }
    lemma_m_hwlen_ext(lps, hws0, hws, k);
}

// ======================= algebra (field axioms only) =======================
pub open spec fn m4(g: FS, c: FS, g2: FS, dd: FS, pp: FS, rr: FS, sw: FS, sr: FS) -> FS {
    f_add(f_add(f_mul(g, pp), f_mul(c, rr)), f_add(f_mul(g2, f_mul(dd, sw)), f_mul(c, sr)))
}
proof fn m_lcomm(a: FS, b: FS, c: FS) ensures f_mul(a, f_mul(b, c)) == f_mul(b, f_mul(a, c))
{ ax_mul_assoc(a, b, c); ax_mul_comm(a, b); ax_mul_assoc(b, a, c); }
// (x + z) + y == (x + y) + z
proof fn m_add_rot(x: FS, z: FS, y: FS) ensures f_add(f_add(x, z), y) == f_add(f_add(x, y), z)
{ ax_add_assoc(x, z, y); ax_add_comm(z, y); ax_add_assoc(x, y, z); }
// (g a + c b) xi == g (xi a) + c (xi b)
proof fn m_scale(g: FS, a: FS, c: FS, b: FS, xi: FS) ensures f_mul(f_add(f_mul(g, a), f_mul(c, b)), xi) == f_add(f_mul(g, f_mul(xi, a)), f_mul(c, f_mul(xi, b)))
{ let s = f_add(f_mul(g, a), f_mul(c, b)); ax_mul_comm(s, xi); ax_distrib(xi, f_mul(g, a), f_mul(c, b)); m_lcomm(xi, g, a); m_lcomm(xi, c, b); }
// unbounded step: the plain commitment g a + c b weighted by xi moves into the first two components
proof fn m_step_a(g: FS, c: FS, g2: FS, dd: FS, pp: FS, rr: FS, sw: FS, sr: FS, a: FS, b: FS, xi: FS)
    ensures f_add(m4(g, c, g2, dd, pp, rr, sw, sr), f_mul(f_add(f_mul(g, a), f_mul(c, b)), xi)) == m4(g, c, g2, dd, f_add(pp, f_mul(xi, a)), f_add(rr, f_mul(xi, b)), sw, sr)
{
    m_scale(g, a, c, b, xi);
    let y1 = f_mul(g, f_mul(xi, a)); let y2 = f_mul(c, f_mul(xi, b));
    let x = f_add(f_mul(g, pp), f_mul(c, rr)); let z = f_add(f_mul(g2, f_mul(dd, sw)), f_mul(c, sr));
    m_add_rot(x, z, f_add(y1, y2));
    lemma_add_swap(f_mul(g, pp), f_mul(c, rr), y1, y2);
    ax_distrib(g, pp, f_mul(xi, a)); ax_distrib(c, rr, f_mul(xi, b));
}
// bounded step, second half: g2 (D y) + c e moves into the last two components
proof fn m_step_b(g: FS, c: FS, g2: FS, dd: FS, pp: FS, rr: FS, sw: FS, sr: FS, y: FS, e: FS)
    ensures f_add(m4(g, c, g2, dd, pp, rr, sw, sr), f_add(f_mul(g2, f_mul(dd, y)), f_mul(c, e))) == m4(g, c, g2, dd, pp, rr, f_add(sw, y), f_add(sr, e))
{
    let x = f_add(f_mul(g, pp), f_mul(c, rr));
    let z1 = f_mul(g2, f_mul(dd, sw)); let z2 = f_mul(c, sr); let y1 = f_mul(g2, f_mul(dd, y)); let y2 = f_mul(c, e);
    ax_add_assoc(x, f_add(z1, z2), f_add(y1, y2));
    lemma_add_swap(z1, z2, y1, y2);
    ax_distrib(dd, sw, y); ax_distrib(g2, f_mul(dd, sw), f_mul(dd, y)); ax_distrib(c, sr, e);
}
// (x + y + z) - y == x + z
proof fn m_cancel_mid(x: FS, y: FS, z: FS) ensures f_sub(f_add(f_add(x, y), z), y) == f_add(x, z)
{
    m_add_rot(x, y, z);
    ax_add_assoc(f_add(x, z), y, f_neg(y)); ax_add_neg(y); ax_add_zero(f_add(x, z));
}
// the shifted commitment minus value * shift power, weighted by xi':   ((T a + c e) - T v) xi' == g2 (D (xi' (t q))) + c (xi' e)   with T = g2 t, a = q D + v
proof fn m_shift_term(g2: FS, t: FS, c: FS, a: FS, e: FS, v: FS, q: FS, dd: FS, xi: FS)
    requires a == f_add(f_mul(q, dd), v)
    ensures f_mul(f_sub(f_add(f_mul(f_mul(g2, t), a), f_mul(c, e)), f_mul(f_mul(g2, t), v)), xi) == f_add(f_mul(g2, f_mul(dd, f_mul(xi, f_mul(t, q)))), f_mul(c, f_mul(xi, e)))
{
    let tt = f_mul(g2, t); let qd = f_mul(q, dd);
    ax_distrib(tt, qd, v);
    // (T qd + T v) + c e - T v == T qd + c e
    m_cancel_mid(f_mul(tt, qd), f_mul(tt, v), f_mul(c, e));
    // T (q D) == g2 (D (t q))
    ax_mul_assoc(g2, t, qd); ax_mul_assoc(t, q, dd); ax_mul_comm(f_mul(t, q), dd);
    assert(f_mul(tt, qd) == f_mul(g2, f_mul(dd, f_mul(t, q))));
    // (g2 (D w) + c e) xi == g2 (xi (D w)) + c (xi e),  xi (D w) == D (xi w)
    m_scale(g2, f_mul(dd, f_mul(t, q)), c, e, xi);
    m_lcomm(xi, dd, f_mul(t, q));
}
// g (W D + V) == (g W) D + g V
proof fn m_q1(g: FS, w: FS, dd: FS, v: FS) ensures f_mul(g, f_add(f_mul(w, dd), v)) == f_add(f_mul(f_mul(g, w), dd), f_mul(g, v))
{ ax_distrib(g, f_mul(w, dd), v); ax_mul_assoc(g, w, dd); }
// (((u1+n1) + (u2+n2)) + (u3 + (u4+n3))) - n1 - (n2+n3) == (u1+u2) + (u3+u4)
proof fn m_cancel7(u1: FS, u2: FS, u3: FS, u4: FS, n1: FS, n2: FS, n3: FS)
    ensures f_sub(f_sub(f_add(f_add(f_add(u1, n1), f_add(u2, n2)), f_add(u3, f_add(u4, n3))), n1), f_add(n2, n3)) == f_add(f_add(u1, u2), f_add(u3, u4))
{
    // regroup: ((u1+u2) + (u3+u4)) + n1 + (n2+n3)
    let uu = f_add(f_add(u1, u2), f_add(u3, u4));
    lemma_add_swap(u1, n1, u2, n2);                       // (u1+n1)+(u2+n2) == (u1+u2)+(n1+n2)
    ax_add_assoc(u3, u4, n3);                             // (u3+u4)+n3 == u3+(u4+n3)
    lemma_add_swap(f_add(u1, u2), f_add(n1, n2), f_add(u3, u4), n3);   // ((u1+u2)+(n1+n2)) + ((u3+u4)+n3) == uu + ((n1+n2)+n3)
    ax_add_assoc(n1, n2, n3);
    let total = f_add(uu, f_add(n1, f_add(n2, n3)));
    assert(f_add(f_add(f_add(u1, n1), f_add(u2, n2)), f_add(u3, f_add(u4, n3))) == total);
    // total - n1 - (n2+n3)
    ax_add_assoc(uu, n1, f_add(n2, n3));
    m_cancel_mid(uu, n1, f_add(n2, n3));
    assert(f_sub(total, n1) == f_add(uu, f_add(n2, n3)));
    ax_add_assoc(uu, f_add(n2, n3), f_neg(f_add(n2, n3))); ax_add_neg(f_add(n2, n3)); ax_add_zero(uu);
}
// x1 D + x2 D + x3 D + x4 D == (x1 + x2 + x3 + x4) D   (in the grouping used below)
proof fn m_factor4(x1: FS, x2: FS, x3: FS, x4: FS, dd: FS)
    ensures f_add(f_add(f_mul(x1, dd), f_mul(x2, dd)), f_add(f_mul(x3, dd), f_mul(x4, dd))) == f_mul(f_add(f_add(x1, x2), f_add(x3, x4)), dd)
{
    ax_mul_comm(x1, dd); ax_mul_comm(x2, dd); ax_mul_comm(x3, dd); ax_mul_comm(x4, dd);
    ax_distrib(dd, x1, x2); ax_distrib(dd, x3, x4); ax_distrib(dd, f_add(x1, x2), f_add(x3, x4));
    ax_mul_comm(dd, f_add(f_add(x1, x2), f_add(x3, x4)));
}
// THE closing identity: with  P = Wp D + Pz,  R = Wr D + Rz,  SR = SRW D + SRz:
//   m4(P, R, SW, SR) - g Pz - c (Rz + SRz)  ==  ((g Wp + c Wr) + (g2 SW + c SRW)) * D
proof fn m_close(g: FS, c: FS, g2: FS, dd: FS, wp: FS, pz: FS, wr: FS, rz: FS, sw: FS, srw: FS, srz: FS)
    ensures f_sub(f_sub(m4(g, c, g2, dd, f_add(f_mul(wp, dd), pz), f_add(f_mul(wr, dd), rz), sw, f_add(f_mul(srw, dd), srz)), f_mul(g, pz)), f_mul(c, f_add(rz, srz)))
         == f_mul(f_add(f_add(f_mul(g, wp), f_mul(c, wr)), f_add(f_mul(g2, sw), f_mul(c, srw))), dd)
{
    m_q1(g, wp, dd, pz); m_q1(c, wr, dd, rz); m_q1(c, srw, dd, srz);
    // g2 (D SW) == (g2 SW) D
    ax_mul_comm(dd, sw); ax_mul_assoc(g2, sw, dd);
    ax_distrib(c, rz, srz);
    let x1 = f_mul(g, wp); let x2 = f_mul(c, wr); let x3 = f_mul(g2, sw); let x4 = f_mul(c, srw);
    m_cancel7(f_mul(x1, dd), f_mul(x2, dd), f_mul(x3, dd), f_mul(x4, dd), f_mul(g, pz), f_mul(c, rz), f_mul(c, srz));
    m_factor4(x1, x2, x3, x4, dd);
}
// (W D) h == W (h b - h z)   with D = b - z
proof fn m_pair(w: FS, b: FS, z: FS, h: FS) ensures f_mul(f_mul(w, f_sub(b, z)), h) == f_mul(w, f_sub(f_mul(h, b), f_mul(h, z)))
{ lemma_distrib_sub(h, b, z); ax_mul_assoc(w, f_sub(b, z), h); ax_mul_comm(f_sub(b, z), h); }

// ======================= induction over the polynomials =======================
pub open spec fn m_t(ck: &CommitterKey, d: usize, beta: FS) -> FS { f_pow(beta, (ck.enforced_degree_bounds->Some_0@.last() - d) as nat) }
pub proof fn lemma_m_shw(ck: &CommitterKey, d: usize, w: &Poly, x: FS)
    ensures m_shw(ck, d, w, x) == f_mul(f_pow(x, (ck.enforced_degree_bounds->Some_0@.last() - d) as nat), w.ev(x))
{
    if w.is_zero_spec() { lemma_peval_zero(w.cv(), x, w.len()); lemma_mul_zero(f_pow(x, (ck.enforced_degree_bounds->Some_0@.last() - d) as nat)); }
}
// what a commitment, its claimed value and its witness are, in terms of evaluations at the trapdoor beta
pub open spec fn m_fact1(ck: &CommitterKey, vk: &VerifierKey, cm: &LabeledCommitment<Commitment>, v: Fr, lp: &LabeledPolynomial, st: &Randomness, w: &Poly, g: FS, c: FS, g2: FS, beta: FS, z: FS) -> bool {
    cm.degree_bound == lp.degree_bound
    && cm.commitment.comm.0@ == f_add(f_mul(g, lp.polynomial.ev(beta)), f_mul(c, st.rand.blinding_polynomial.ev(beta)))
    && v@ == lp.polynomial.ev(z)
    && (lp.degree_bound is Some ==> {
            let d = lp.degree_bound->Some_0; let t = m_t(ck, d, beta);
            cm.commitment.shifted_comm->Some_0.0@ == f_add(f_mul(f_mul(g2, t), lp.polynomial.ev(beta)), f_mul(c, st.shifted_rand->Some_0.blinding_polynomial.ev(beta)))
            && shift_of(vk, d)->Some_0 == f_mul(g2, t)
            && lp.polynomial.ev(beta) == f_add(f_mul(w.ev(beta), f_sub(beta, z)), lp.polynomial.ev(z)) })
}
pub open spec fn m_facts(ck: &CommitterKey, vk: &VerifierKey, cs: Seq<&LabeledCommitment<Commitment>>, vs: Seq<Fr>, lps: Seq<&LabeledPolynomial>, sts: Seq<&Randomness>, ws: Seq<Poly>,
                         g: FS, c: FS, g2: FS, beta: FS, z: FS, j: int) -> bool {
    m_fact1(ck, vk, cs[j], vs[j], lps[j], sts[j], &ws[j], g, c, g2, beta, z)
}
// the verifier's accumulated commitment and value, in terms of the prover's five sums
pub proof fn lemma_m_acc(ck: &CommitterKey, vk: &VerifierKey, cs: Seq<&LabeledCommitment<Commitment>>, vs: Seq<Fr>, lps: Seq<&LabeledPolynomial>, sts: Seq<&Randomness>, ws: Seq<Poly>,
                         g: FS, c: FS, g2: FS, beta: FS, z: FS, s: SS, k: nat)
    requires k <= cs.len(), k <= vs.len(), k <= lps.len(), k <= sts.len(), k <= ws.len(),
        forall|j: int| 0 <= j < k ==> #[trigger] m_facts(ck, vk, cs, vs, lps, sts, ws, g, c, g2, beta, z, j)
    ensures
        acc_c(cs, vs, vk, s, k) == m4(g, c, g2, f_sub(beta, z), m_cp(lps, s, k, beta), m_cr(lps, sts, s, k, beta), m_csw(ck, lps, ws, s, k, beta), m_csr(lps, sts, s, k, beta)),
        acc_v(cs, vs, s, k) == m_cp(lps, s, k, z),
        nsq(cs, k) == open_nsq(lps, k),
    decreases k
{
    let dd = f_sub(beta, z);
    if k == 0 {
        lemma_mul_zero(g); lemma_mul_zero(c); lemma_mul_zero(dd); lemma_mul_zero(g2); ax_add_zero(f_zero());
    } else {
        let j = (k - 1) as nat;
        lemma_m_acc(ck, vk, cs, vs, lps, sts, ws, g, c, g2, beta, z, s, j);
        assert(m_facts(ck, vk, cs, vs, lps, sts, ws, g, c, g2, beta, z, j as int));
        let pp = m_cp(lps, s, j, beta); let rr = m_cr(lps, sts, s, j, beta); let sw = m_csw(ck, lps, ws, s, j, beta); let sr = m_csr(lps, sts, s, j, beta);
        let a = lps[j as int].polynomial.ev(beta); let b = sts[j as int].rand.blinding_polynomial.ev(beta); let v = lps[j as int].polynomial.ev(z);
        let xi = sp_chal(s, nsq(cs, j));
        assert(xi == m_xi(lps, s, j));
        m_step_a(g, c, g2, dd, pp, rr, sw, sr, a, b, xi);
        ax_mul_comm(vs[j as int]@, xi);
        match lps[j as int].degree_bound {
            Some(d) => {
                let t = m_t(ck, d, beta); let q = ws[j as int].ev(beta); let e = sts[j as int].shifted_rand->Some_0.blinding_polynomial.ev(beta);
                let xi1 = sp_chal(s, nsq(cs, j) + 1);
                assert(xi1 == m_xi1(lps, s, j));
                m_shift_term(g2, t, c, a, e, v, q, dd, xi1);
                lemma_m_shw(ck, d, &ws[j as int], beta);
                m_step_b(g, c, g2, dd, f_add(pp, f_mul(xi, a)), f_add(rr, f_mul(xi, b)), sw, sr, f_mul(xi1, f_mul(t, q)), f_mul(xi1, e));
            }
            None => { }
        }
    }
}
// the shifted blinding sum splits like its summands:  SR(beta) == SRW(beta) (beta - z) + SR(z)
pub proof fn lemma_m_srw(lps: Seq<&LabeledPolynomial>, sts: Seq<&Randomness>, ws: Seq<Poly>, hws: Seq<Option<Poly>>, s: SS, beta: FS, z: FS, k: nat)
    requires k <= lps.len(), k <= sts.len(), m_wit_ok(lps, sts, ws, hws, z, k)
    ensures m_csr(lps, sts, s, k, beta) == f_add(f_mul(m_csrw(lps, hws, s, k, beta), f_sub(beta, z)), m_csr(lps, sts, s, k, z))
    decreases k
{
    let dd = f_sub(beta, z);
    if k == 0 { lemma_mul_zero(dd); ax_add_zero(f_zero()); } else {
        let j = (k - 1) as nat;
        assert(m_wit_ok(lps, sts, ws, hws, z, j)) by { assert forall|i: int| 0 <= i < j implies ((#[trigger] lps[i]).degree_bound is Some ==> m_wit_one(lps[i], sts[i], &ws[i], hws[i], z)) by { } }
        lemma_m_srw(lps, sts, ws, hws, s, beta, z, j);
        if lps[j as int].degree_bound is Some {
            assert(m_wit_one(lps[j as int], sts[j as int], &ws[j as int], hws[j as int], z));
            let srp = sts[j as int].shifted_rand->Some_0.blinding_polynomial;
            let xi1 = m_xi1(lps, s, j); let e = srp.ev(beta); let ez = srp.ev(z);
            let big = m_csrw(lps, hws, s, j, beta); let sz = m_csr(lps, sts, s, j, z);
            match hws[j as int] {
                Some(hw) => {
                    let u = hw.ev(beta);
                    assert(e == f_add(f_mul(u, dd), ez));
                    // (big D + sz) + xi1 (u D + ez) == (big + xi1 u) D + (sz + xi1 ez)
                    ax_distrib(xi1, f_mul(u, dd), ez); ax_mul_assoc(xi1, u, dd);
                    lemma_add_swap(f_mul(big, dd), sz, f_mul(f_mul(xi1, u), dd), f_mul(xi1, ez));
                    ax_mul_comm(big, dd); ax_mul_comm(f_mul(xi1, u), dd); ax_distrib(dd, big, f_mul(xi1, u)); ax_mul_comm(dd, f_add(big, f_mul(xi1, u)));
                }
                None => {
                    lemma_peval_zero(srp.cv(), beta, srp.len()); lemma_peval_zero(srp.cv(), z, srp.len());
                    lemma_mul_zero(xi1); ax_add_zero(m_csr(lps, sts, s, j, beta)); ax_add_zero(sz);
                }
            }
        }
    }
}
// without degree bounds the shifted sums are empty
pub proof fn lemma_m_nobound(ck: &CommitterKey, lps: Seq<&LabeledPolynomial>, sts: Seq<&Randomness>, ws: Seq<Poly>, hws: Seq<Option<Poly>>, s: SS, k: nat, x: FS)
    requires !m_any_bound(lps, k)
    ensures m_csw(ck, lps, ws, s, k, x) == f_zero(), m_csr(lps, sts, s, k, x) == f_zero(), m_csrw(lps, hws, s, k, x) == f_zero()
    decreases k
{ if k > 0 { lemma_m_nobound(ck, lps, sts, ws, hws, s, (k - 1) as nat, x); } }
// sizes
pub proof fn lemma_m_rlen(sts: Seq<&Randomness>, k: nat, n: nat)
    requires k <= sts.len(), forall|j: int| 0 <= j < k ==> (#[trigger] sts[j]).rand.blinding_polynomial.len() <= n
    ensures m_rlen(sts, k) <= n
    decreases k
{ if k > 0 { lemma_m_rlen(sts, (k - 1) as nat, n); } }
pub proof fn lemma_m_hwlen(lps: Seq<&LabeledPolynomial>, sts: Seq<&Randomness>, ws: Seq<Poly>, hws: Seq<Option<Poly>>, z: FS, k: nat, n: nat)
    requires k <= lps.len(), k <= sts.len(), m_wit_ok(lps, sts, ws, hws, z, k),
        forall|j: int| 0 <= j < k ==> ((#[trigger] lps[j]).degree_bound is Some ==> sts[j].shifted_rand->Some_0.blinding_polynomial.len() <= n)
    ensures m_hwlen(lps, hws, k) <= n
    decreases k
{
    if k > 0 {
        let j = (k - 1) as nat;
        assert(m_wit_ok(lps, sts, ws, hws, z, j)) by { assert forall|i: int| 0 <= i < j implies ((#[trigger] lps[i]).degree_bound is Some ==> m_wit_one(lps[i], sts[i], &ws[i], hws[i], z)) by { } }
        lemma_m_hwlen(lps, sts, ws, hws, z, j, n);
        if lps[j as int].degree_bound is Some { assert(m_wit_one(lps[j as int], sts[j as int], &ws[j as int], hws[j as int], z)); }
    }
}

// ======================= keys in trapdoor form; the completeness lemma =======================
// sizes within the key (these are the admission clauses of MarlinKZG10::commit: marlin_admissible / marlin_hiding_ok, with ck_wf)
pub open spec fn m_lens_ok(ck: &CommitterKey, lp: &LabeledPolynomial, st: &Randomness) -> bool {
    lp.polynomial.len() <= ck.powers@.len()
    && st.rand.blinding_polynomial.len() <= ck.powers_of_gamma_g@.len()
    && (lp.degree_bound is Some ==> (
            ck.shifted_powers is Some && lp.degree_bound->Some_0 <= ck.enforced_degree_bounds->Some_0@.last()
            && ck.enforced_degree_bounds->Some_0@.last() - lp.degree_bound->Some_0 + lp.polynomial.len() <= ck.shifted_powers->Some_0@.len()
            && st.shifted_rand is Some && st.shifted_rand->Some_0.blinding_polynomial.len() <= ck.powers_of_gamma_g@.len()))
}
// Excluded corner (probability negligible over the challenges / the caller's RNG): the challenge-weighted sum of the plain blinding
// polynomials vanishes identically while the shifted blinding polynomials do not vanish at z.  `open` then drops the shifted blinding
// evaluation (`random_v.map(..)` on None) and the proof would not verify.
pub open spec fn m_nondegenerate(lps: Seq<&LabeledPolynomial>, sts: Seq<&Randomness>, s: SS, k: nat, z: FS) -> bool {
    m_csr(lps, sts, s, k, z) == f_zero() || !(forall|x: FS| #[trigger] m_cr(lps, sts, s, k, x) == f_zero())
}
proof fn m_pow0(g: FS, x: FS) ensures f_mul(g, f_pow(x, 0)) == g { ax_mul_one(g); }
pub proof fn lemma_m_fact(ck: &CommitterKey, vk: &VerifierKey, beta: FS, lp: &LabeledPolynomial, cm: &LabeledCommitment<Commitment>, st: &Randomness, v: Fr, w: &Poly, hw: Option<Poly>, z: FS)
    requires m_srs_ok(ck, vk, beta), marlin_commit_one(ck, lp, cm, st), m_lens_ok(ck, lp, st), v@ == lp.polynomial.ev(z),
        lp.degree_bound is Some ==> (shift_of(vk, lp.degree_bound->Some_0) is Some && m_wit_one(lp, st, w, hw, z)),
    ensures m_fact1(ck, vk, cm, v, lp, st, w, vk.vk.g@, vk.vk.gamma_g@, f_mul(vk.vk.g@, f_pow(beta, m_off(ck))), beta, z)
{
    let g = vk.vk.g@; let c = vk.vk.gamma_g@; let p = lp.polynomial; let r = st.rand.blinding_polynomial;
    m_pow0(g, beta); m_pow0(c, beta);
    lemma_dot_geometric(g1views(ck.powers@), g, beta, 0, p.cv(), p.len());
    lemma_dot_geometric(g1views(ck.powers_of_gamma_g@), c, beta, 0, r.cv(), r.len());
    assert(cm.commitment.comm.0@ == f_add(f_mul(g, p.ev(beta)), f_mul(c, r.ev(beta))));
    if lp.degree_bound is Some {
        let d = lp.degree_bound->Some_0; let maxb = ck.enforced_degree_bounds->Some_0@.last(); let sh = (maxb - d) as nat; let off = m_off(ck);
        let sp = ck.shifted_powers->Some_0@; let win = sp.subrange(maxb - d, sp.len() as int);
        let sr = st.shifted_rand->Some_0.blinding_polynomial;
        assert(geometric(g1views(win), g, beta, off + sh)) by {
            assert forall|i: int| 0 <= i < g1views(win).len() implies #[trigger] g1views(win)[i] == f_mul(g, f_pow(beta, off + sh + i as nat)) by {
                assert(g1views(win)[i] == g1views(sp)[sh + i]);
                assert(g1views(sp)[sh + i] == f_mul(g, f_pow(beta, off + (sh + i) as nat)));
                assert(off + (sh + i) as nat == off + sh + i as nat);
            }
        }
        lemma_dot_geometric(g1views(win), g, beta, off + sh, p.cv(), p.len());
        lemma_dot_geometric(g1views(ck.powers_of_gamma_g@), c, beta, 0, sr.cv(), sr.len());
        lemma_pow_add(beta, off, sh);
        ax_mul_assoc(g, f_pow(beta, off), f_pow(beta, sh));
        assert(f_mul(g, f_pow(beta, off + sh)) == f_mul(f_mul(g, f_pow(beta, off)), m_t(ck, d, beta)));
        let tbl = vk.degree_bounds_and_shift_powers->Some_0@;
        let i0 = choose|i: int| 0 <= i < tbl.len() && tbl[i].0 == d;
        assert(shift_of(vk, d)->Some_0 == tbl[i0].1@ && tbl[i0].0 == d);
        assert((ck.max_degree - d) as nat == off + sh);
        assert(w.ev(beta) == w.ev(beta));
    }
}
pub proof fn lemma_marlin_complete_w(ck: &CommitterKey, vk: &VerifierKey, beta: FS, lps: Seq<&LabeledPolynomial>, cs: Seq<&LabeledCommitment<Commitment>>, sts: Seq<&Randomness>, vs: Seq<Fr>,
                                     z: Fr, s: SS, k: nat, proof: &kzg10::Proof, gw: MOpenWit)
    requires
        m_srs_ok(ck, vk, beta), k <= lps.len(), k <= cs.len(), k <= sts.len(), k <= vs.len(),
        forall|j: int| 0 <= j < k ==> marlin_commit_one(ck, #[trigger] lps[j], cs[j], sts[j]) && m_lens_ok(ck, lps[j], sts[j]) && vs[j]@ == lps[j].polynomial.ev(z@)
            && (lps[j].degree_bound is Some ==> shift_of(vk, lps[j].degree_bound->Some_0) is Some),
        marlin_open_rel(ck, lps, sts, z, s, k, proof.w@, proof.random_v, gw),
        m_nondegenerate(lps, sts, s, k, z@),
    ensures
        kzg10::kzg_relation_raw(&vk.vk, acc_c(cs, vs, vk, s, k), z, acc_v(cs, vs, s, k), proof)
{
    let g = vk.vk.g@; let c = vk.vk.gamma_g@; let h = vk.vk.h@; let zz = z@; let dd = f_sub(beta, zz);
    let g2 = f_mul(g, f_pow(beta, m_off(ck)));
    let pg = ck.powers@; let pgamma = ck.powers_of_gamma_g@;
    assert forall|j: int| 0 <= j < k implies #[trigger] m_facts(ck, vk, cs, vs, lps, sts, gw.ws, g, c, g2, beta, zz, j) by {
        assert(marlin_commit_one(ck, lps[j], cs[j], sts[j]));
        lemma_m_fact(ck, vk, beta, lps[j], cs[j], sts[j], vs[j], &gw.ws[j], gw.hws[j], zz);
    }
    lemma_m_acc(ck, vk, cs, vs, lps, sts, gw.ws, g, c, g2, beta, zz, s, k);
    let aa = acc_c(cs, vs, vk, s, k); let vv = acc_v(cs, vs, s, k);
    let pz = m_cp(lps, s, k, zz);
    let rp = gw.r.blinding_polynomial;
    // the KZG10 opening of the combined polynomial
    let (w, hw): (Poly, Option<Poly>) = choose|w: Poly, hw: Option<Poly>| #![trigger w.cv(), hw.is_some()]
        (forall|x: FS| gw.p.ev(x) == f_add(f_mul(#[trigger] w.ev(x), f_sub(x, zz)), gw.p.ev(zz)))
        && (hw is Some) == !rp.is_zero_spec()
        && (hw is Some ==> (forall|x: FS| rp.ev(x) == f_add(f_mul(#[trigger] hw->Some_0.ev(x), f_sub(x, zz)), rp.ev(zz))))
        && gw.pr0.w@ == f_add(msm(pg, w.cv(), w.len()),
              match hw { Some(hh) => msm(pgamma, hh.cv(), min(pgamma.len(), hh.len())), None => f_zero() })
        && (gw.pr0.random_v is Some) == (hw is Some)
        && (hw is Some ==> gw.pr0.random_v->Some_0@ == rp.ev(zz))
        && w.len() <= pg.len()
        && (hw is Some ==> hw->Some_0.len() + 1 <= rp.len() || hw->Some_0.len() == 0);
    let wp = w.ev(beta);
    m_pow0(g, beta); m_pow0(c, beta);
    lemma_dot_geometric(g1views(pg), g, beta, 0, w.cv(), w.len());
    assert(gw.p.ev(beta) == f_add(f_mul(wp, dd), gw.p.ev(zz)));
    assert(m_cp(lps, s, k, beta) == gw.p.ev(beta) && pz == gw.p.ev(zz));
    assert(m_cr(lps, sts, s, k, beta) == rp.ev(beta));
    // the blinding part
    let wr = match hw { Some(hh) => hh.ev(beta), None => f_zero() };
    let rz = match hw { Some(hh) => rp.ev(zz), None => f_zero() };
    assert(rp.ev(beta) == f_add(f_mul(wr, dd), rz) && gw.pr0.w@ == f_add(f_mul(g, wp), f_mul(c, wr))) by {
        match hw {
            Some(hh) => {
                assert forall|j: int| 0 <= j < k implies (#[trigger] sts[j]).rand.blinding_polynomial.len() <= pgamma.len() by { assert(m_lens_ok(ck, lps[j], sts[j])); }
                lemma_m_rlen(sts, k, pgamma.len());
                lemma_dot_geometric(g1views(pgamma), c, beta, 0, hh.cv(), hh.len());
                assert(rp.ev(beta) == f_add(f_mul(hh.ev(beta), dd), rp.ev(zz)));
            }
            None => { lemma_peval_zero(rp.cv(), beta, rp.len()); lemma_mul_zero(dd); lemma_mul_zero(c); ax_add_zero(f_zero()); }
        }
    }
    // the shifted part
    let bnd = m_any_bound(lps, k);
    let swv = if bnd { gw.sw.ev(beta) } else { f_zero() };
    let srw = if bnd { gw.srw.ev(beta) } else { f_zero() };
    let srz = if bnd { m_csr(lps, sts, s, k, zz) } else { f_zero() };
    let wtot = f_add(f_add(f_mul(g, wp), f_mul(c, wr)), f_add(f_mul(g2, swv), f_mul(c, srw)));
    assert(m_csw(ck, lps, gw.ws, s, k, beta) == swv && m_csr(lps, sts, s, k, beta) == f_add(f_mul(srw, dd), srz) && proof.w@ == wtot) by {
        if bnd {
            lemma_m_srw(lps, sts, gw.ws, gw.hws, s, beta, zz, k);
            assert(gw.srw.ev(beta) == m_csrw(lps, gw.hws, s, k, beta));
            assert(gw.sw.ev(beta) == m_csw(ck, lps, gw.ws, s, k, beta));
            lemma_dot_geometric(g1views(ck.shifted_powers->Some_0@), g, beta, m_off(ck), gw.sw.cv(), gw.sw.len());
            assert forall|j: int| 0 <= j < k implies ((#[trigger] lps[j]).degree_bound is Some ==> sts[j].shifted_rand->Some_0.blinding_polynomial.len() <= pgamma.len()) by { assert(m_lens_ok(ck, lps[j], sts[j])); }
            lemma_m_hwlen(lps, sts, gw.ws, gw.hws, zz, k, pgamma.len());
            lemma_dot_geometric(g1views(pgamma), c, beta, 0, gw.srw.cv(), gw.srw.len());
        } else {
            lemma_m_nobound(ck, lps, sts, gw.ws, gw.hws, s, k, beta);
            lemma_mul_zero(dd); lemma_mul_zero(g2); lemma_mul_zero(c); ax_add_zero(f_zero()); ax_add_zero(f_add(f_mul(g, wp), f_mul(c, wr)));
        }
    }
    m_close(g, c, g2, dd, wp, pz, wr, rz, swv, srw, srz);
    assert(aa == m4(g, c, g2, dd, f_add(f_mul(wp, dd), pz), f_add(f_mul(wr, dd), rz), swv, f_add(f_mul(srw, dd), srz)));
    let inner = f_sub(f_sub(aa, f_mul(g, pz)), f_mul(c, f_add(rz, srz)));
    assert(inner == f_mul(wtot, dd));
    // the verifier's left-hand side is `inner`
    assert(kzg10::kzg_lhs_raw(&vk.vk, aa, vv, proof) == inner) by {
        match proof.random_v {
            Some(rv) => {
                if bnd { assert(gw.sr.blinding_polynomial.ev(zz) == m_csr(lps, sts, s, k, zz)); } else { ax_add_zero(rz); }
            }
            None => {
                // no blinding evaluation in the proof: the combined plain blinding polynomial is zero, so by non-degeneracy SR(z) = 0
                assert(rp.is_zero_spec());
                if bnd {
                    assert forall|x: FS| #[trigger] m_cr(lps, sts, s, k, x) == f_zero() by { lemma_peval_zero(rp.cv(), x, rp.len()); assert(rp.ev(x) == m_cr(lps, sts, s, k, x)); }
                }
                ax_add_zero(f_zero()); lemma_mul_zero(c); lemma_neg_zero(); ax_add_zero(f_sub(aa, f_mul(g, pz)));
            }
        }
    }
    m_pair(wtot, beta, zz, h);
}
