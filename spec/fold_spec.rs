// ===== spec/fold_spec.rs : folded-polynomial streams (streaming_kzg/data_structures.rs): specification and PROVED lemmas =====
pub open spec fn pw(k: nat) -> nat { vstd::arithmetic::power2::pow2(k) }
pub open spec fn stack_sum(st: Seq<(usize, Fr)>, k: nat) -> nat decreases k {
    if k == 0 { 0 } else { stack_sum(st, (k - 1) as nat) + vstd::arithmetic::power2::pow2(st[k - 1].0 as nat) }
}
// the fold of a window w of 2^l coefficients (most significant first) down l levels:  F_0(w) = w[0],  F_{l+1}(w) = F_l(first half) * ch[l] + F_l(second half)
pub open spec fn ffold(ch: Seq<FS>, l: nat, w: Seq<FS>) -> FS decreases l {
    if l == 0 { w[0] } else { let h = pw((l - 1) as nat) as int;
        f_add(f_mul(ffold(ch, (l - 1) as nat, w.subrange(0, h)), ch[l - 1]), ffold(ch, (l - 1) as nat, w.subrange(h, 2 * h))) }
}
// number of virtual zero coefficients in front, so that the padded length is a multiple of 2^depth
pub open spec fn padlen(n: nat, d: nat) -> nat { if n % pw(d) == 0 { 0 } else { (pw(d) - n % pw(d)) as nat } }
pub open spec fn padded(data: Seq<Fr>, d: nat) -> Seq<FS> { let p = padlen(data.len(), d); Seq::new(p + data.len(), |i: int| if i < p { f_zero() } else { data[i - p]@ }) }
// the stack, read from the top, tiles the padded sequence backwards from position hi: each entry is the fold of its window
pub open spec fn tiled(ch: Seq<FS>, pd: Seq<FS>, st: Seq<(usize, Fr)>, hi: int) -> bool decreases st.len() {
    if st.len() == 0 { true } else { let l = st.last().0 as nat; let lo = hi - pw(l);
        0 <= lo && hi <= pd.len() && st.last().1@ == ffold(ch, l, pd.subrange(lo, hi)) && tiled(ch, pd, st.drop_last(), lo) }
}
// levels below the depth, strictly decreasing from bottom to top except that the top two may be equal (they are merged by the next call)
pub open spec fn levels_ok(st: Seq<(usize, Fr)>, d: nat) -> bool {
    (forall|j: int| 0 <= j < st.len() ==> (#[trigger] st[j]).0 < d)
    && (forall|a: int, b: int| 0 <= a < b < st.len() ==> (#[trigger] st[a]).0 > (#[trigger] st[b]).0 || (a == st.len() - 2 && b == st.len() - 1 && st[a].0 == st[b].0))
}
pub open spec fn it_n(data: Seq<Fr>, pos: nat, d: nat) -> nat { padlen(data.len(), d) + pos }
pub proof fn lemma_pw0() ensures pw(0) == 1 { vstd::arithmetic::power2::lemma2_to64(); }
pub proof fn lemma_pw_unfold(k: nat) requires k >= 1 ensures pw(k) == 2 * pw((k - 1) as nat), pw((k - 1) as nat) >= 1 { vstd::arithmetic::power2::lemma_pow2_unfold(k); vstd::arithmetic::power2::lemma_pow2_pos((k - 1) as nat); }
pub proof fn lemma_padded_len(data: Seq<Fr>, d: nat) ensures padded(data, d).len() == padlen(data.len(), d) + data.len() { }
// popping two equal top entries of level l and (unless l + 1 is the depth) pushing one of level l + 1 keeps the level pattern
pub proof fn lemma_levels_after_fold(st: Seq<(usize, Fr)>, d: nat)
    requires levels_ok(st, d), st.len() >= 2, st[st.len() - 1].0 == st[st.len() - 2].0
    ensures levels_ok(st.subrange(0, st.len() - 2), d), st[st.len() - 1].0 + 1 <= d,
        forall|v: Fr| st[st.len() - 1].0 + 1 < d ==> levels_ok(#[trigger] st.subrange(0, st.len() - 2).push(((st[st.len() - 1].0 + 1) as usize, v)), d)
{
    let n = st.len() as int; let s2 = st.subrange(0, n - 2); let l = st[n - 1].0;
    assert forall|a: int, b: int| 0 <= a < b < s2.len() implies (#[trigger] s2[a]).0 > (#[trigger] s2[b]).0 by { assert(st[a].0 > st[b].0); }
    assert forall|v: Fr| l + 1 < d implies levels_ok(#[trigger] s2.push(((l + 1) as usize, v)), d) by {
        let s3 = s2.push(((l + 1) as usize, v));
        assert forall|a: int, b: int| 0 <= a < b < s3.len() implies (#[trigger] s3[a]).0 > (#[trigger] s3[b]).0 || (a == s3.len() - 2 && b == s3.len() - 1 && s3[a].0 == s3[b].0) by {
            if b < s2.len() { assert(st[a].0 > st[b].0); } else { assert(st[a].0 > st[n - 1].0); if a < s2.len() - 1 { assert(st[a].0 > st[n - 3].0); assert(st[n - 3].0 > st[n - 1].0); } }
        }
    }
}
// pushing a level-0 entry onto a stack whose top two are not equal keeps the level pattern (depth >= 1)
pub proof fn lemma_levels_after_read(st: Seq<(usize, Fr)>, d: nat, v: Fr)
    requires levels_ok(st, d), !(st.len() > 1 && st[st.len() - 1].0 == st[st.len() - 2].0)
    ensures d >= 1 ==> levels_ok(st.push((0usize, v)), d)
{
    if d >= 1 {
        let s3 = st.push((0usize, v)); let n = st.len() as int;
        assert forall|a: int, b: int| 0 <= a < b < s3.len() implies (#[trigger] s3[a]).0 > (#[trigger] s3[b]).0 || (a == s3.len() - 2 && b == s3.len() - 1 && s3[a].0 == s3[b].0) by {
            if b < n { assert(st[a].0 > st[b].0 || (a == n - 2 && b == n - 1 && st[a].0 == st[b].0)); }
            else if a < n - 1 { assert(st[a].0 > st[n - 1].0 || (a == n - 2 && st[a].0 == st[n - 1].0)); }
        }
    }
}
pub proof fn lemma_ffold_zero(ch: Seq<FS>, l: nat, w: Seq<FS>)
    requires w.len() >= pw(l), forall|i: int| 0 <= i < w.len() ==> w[i] == f_zero()
    ensures ffold(ch, l, w) == f_zero()
    decreases l
{
    if l == 0 { lemma_pw0(); } else {
        lemma_pw_unfold(l); let h = pw((l - 1) as nat) as int;
        lemma_ffold_zero(ch, (l - 1) as nat, w.subrange(0, h)); lemma_ffold_zero(ch, (l - 1) as nat, w.subrange(h, 2 * h));
        lemma_mul_zero(ch[l - 1]); ax_add_zero(f_zero());
    }
}
proof fn lemma_stack_sum_drop(st: Seq<(usize, Fr)>, k: nat)
    requires k < st.len()
    ensures stack_sum(st.drop_last(), k) == stack_sum(st, k)
    decreases k
{ if k > 0 { lemma_stack_sum_drop(st, (k - 1) as nat); } }
// a stack of zero-valued entries whose sizes add up to hi tiles an all-zero prefix [0, hi)
pub proof fn lemma_tiled_zeros(ch: Seq<FS>, pd: Seq<FS>, st: Seq<(usize, Fr)>, hi: int)
    requires forall|j: int| 0 <= j < st.len() ==> (#[trigger] st[j]).1@ == f_zero(), stack_sum(st, st.len()) == hi, 0 <= hi <= pd.len(), forall|i: int| 0 <= i < hi ==> pd[i] == f_zero()
    ensures tiled(ch, pd, st, hi)
    decreases st.len()
{
    if st.len() > 0 {
        let l = st.last().0 as nat; let lo = hi - pw(l);
        lemma_stack_sum_drop(st, (st.len() - 1) as nat);
        assert(stack_sum(st.drop_last(), st.drop_last().len()) == lo);
        lemma_ffold_zero(ch, l, pd.subrange(lo, hi));
        lemma_tiled_zeros(ch, pd, st.drop_last(), lo);
    }
}
pub proof fn lemma_init_wf(ch: Seq<FS>, data: Seq<Fr>, d: nat, st: Seq<(usize, Fr)>)
    requires d < 63,
        forall|j: int| 0 <= j < st.len() ==> (#[trigger] st[j]).0 < d && st[j].1@ == f_zero(),
        forall|a: int, b: int| 0 <= a < b < st.len() ==> st[a].0 > st[b].0,
        (data.len() as nat) % pw(d) == 0 ==> st.len() == 0,
        (data.len() as nat) % pw(d) != 0 ==> stack_sum(st, st.len()) == pw(d) - (data.len() as nat) % pw(d),
    ensures levels_ok(st, d), tiled(ch, padded(data, d), st, padlen(data.len(), d) as int)
{
    let pd = padded(data, d); let p = padlen(data.len(), d);
    vstd::arithmetic::power2::lemma_pow2_pos(d);
    assert(stack_sum(st, st.len()) == p) by { if data.len() % pw(d) == 0 { assert(stack_sum(st, 0) == 0); } }
    lemma_tiled_zeros(ch, pd, st, p as int);
}
pub proof fn lemma_stack_sum_push(st: Seq<(usize, Fr)>, e: (usize, Fr))
    ensures stack_sum(st.push(e), st.len() + 1) == stack_sum(st, st.len()) + pw(e.0 as nat)
{ lemma_stack_sum_ext2(st.push(e), st, st.len()); }
proof fn lemma_stack_sum_ext2(a: Seq<(usize, Fr)>, b: Seq<(usize, Fr)>, k: nat)
    requires k <= a.len(), k <= b.len(), forall|j: int| 0 <= j < k ==> a[j].0 == b[j].0
    ensures stack_sum(a, k) == stack_sum(b, k)
    decreases k
{ if k > 0 { lemma_stack_sum_ext2(a, b, (k - 1) as nat); } }
pub proof fn lemma_stack_sum_pop2(st: Seq<(usize, Fr)>)
    requires st.len() >= 2
    ensures stack_sum(st, st.len()) == stack_sum(st.subrange(0, st.len() - 2), (st.len() - 2) as nat) + pw(st[st.len() - 2].0 as nat) + pw(st[st.len() - 1].0 as nat)
{ reveal_with_fuel(stack_sum, 3); lemma_stack_sum_ext2(st, st.subrange(0, st.len() - 2), (st.len() - 2) as nat); }
// all levels >= 1: the covered length is even
pub proof fn lemma_stack_sum_even(st: Seq<(usize, Fr)>, k: nat)
    requires k <= st.len(), forall|j: int| 0 <= j < k ==> (#[trigger] st[j]).0 >= 1
    ensures stack_sum(st, k) % 2 == 0
    decreases k
{ if k > 0 { lemma_stack_sum_even(st, (k - 1) as nat); lemma_pw_unfold(st[k - 1].0 as nat); } }
pub proof fn lemma_padded_multiple(n: nat, d: nat) ensures (padlen(n, d) + n) % pw(d) == 0
{
    vstd::arithmetic::power2::lemma_pow2_pos(d);
    let m = pw(d) as int; let r = (n as int) % m;
    vstd::arithmetic::div_mod::lemma_fundamental_div_mod(n as int, m);
    if r != 0 {
        // padlen + n = m - r + (m*(n/m) + r) = m * (n/m + 1)
        let q = (n as int) / m;
        assert(padlen(n, d) + n == m * (q + 1)) by (nonlinear_arith) requires padlen(n, d) == m - r, n == m * q + r;
        vstd::arithmetic::div_mod::lemma_mod_multiples_basic(q + 1, m);
    }
}
// pushing a level-1 entry onto a stack that is empty or whose top level is not 0 (and whose top two differ) keeps the level pattern
pub proof fn lemma_levels_after_push1(st: Seq<(usize, Fr)>, d: nat, v: Fr)
    requires levels_ok(st, d), !(st.len() > 1 && st[st.len() - 1].0 == st[st.len() - 2].0), st.len() == 0 || st[st.len() - 1].0 != 0, d >= 1
    ensures d >= 2 ==> levels_ok(st.push((1usize, v)), d), d == 1 ==> st.len() == 0
{
    let n = st.len() as int;
    if d == 1 { if n > 0 { assert(st[n - 1].0 < d); } }
    else {
        let s3 = st.push((1usize, v));
        assert forall|a: int, b: int| 0 <= a < b < s3.len() implies (#[trigger] s3[a]).0 > (#[trigger] s3[b]).0 || (a == s3.len() - 2 && b == s3.len() - 1 && s3[a].0 == s3[b].0) by {
            if b < n { assert(st[a].0 > st[b].0 || (a == n - 2 && b == n - 1 && st[a].0 == st[b].0)); }
            else if a < n - 1 { assert(st[a].0 > st[n - 1].0 || (a == n - 2 && st[a].0 == st[n - 1].0)); }
        }
    }
}
pub proof fn lemma_mod_shift(a: int, m: int) requires m >= 1, a >= m, (a - m) % m == 0 ensures a % m == 0
{ vstd::arithmetic::div_mod::lemma_mod_add_multiples_vanish(a - m, m); }
// ---- one well-formedness predicate for both iterators: level pattern, tiling, and alignment (the stack starts at a multiple of 2^depth) ----
#[verifier::opaque]
pub open spec fn wfs(ch: Seq<FS>, pd: Seq<FS>, d: nat, st: Seq<(usize, Fr)>, n: int) -> bool {
    levels_ok(st, d) && tiled(ch, pd, st, n) && 0 <= n <= pd.len()
    && stack_sum(st, st.len()) <= n && ((n - stack_sum(st, st.len())) as nat) % pw(d) == 0
}
// what one loop iteration computes: a new item (lv, e) = the fold of the window ending at n1, above a stack stm that tiles what lies before it
#[verifier::opaque]
pub open spec fn step_ok(ch: Seq<FS>, pd: Seq<FS>, d: nat, stm: Seq<(usize, Fr)>, n1: int, lv: nat, e: FS) -> bool {
    lv <= d && pw(lv) <= n1 && n1 <= pd.len()
    && e == ffold(ch, lv, pd.subrange(n1 - pw(lv), n1))
    && tiled(ch, pd, stm, n1 - pw(lv))
    && stack_sum(stm, stm.len()) + pw(lv) <= n1 && ((n1 - stack_sum(stm, stm.len()) - pw(lv)) as nat) % pw(d) == 0
    && (lv == d ==> stm.len() == 0)
    && (lv < d ==> forall|v: Fr| levels_ok(#[trigger] stm.push((lv as usize, v)), d))
}
pub proof fn lemma_step_fold(ch: Seq<FS>, pd: Seq<FS>, d: nat, st0: Seq<(usize, Fr)>, n0: int)
    requires wfs(ch, pd, d, st0, n0), st0.len() >= 2, st0[st0.len() - 1].0 == st0[st0.len() - 2].0
    ensures st0[st0.len() - 1].0 < d,
        step_ok(ch, pd, d, st0.subrange(0, st0.len() - 2), n0, (st0[st0.len() - 1].0 + 1) as nat, f_add(f_mul(st0[st0.len() - 2].1@, ch[st0[st0.len() - 1].0 as int]), st0[st0.len() - 1].1@))
{
    reveal(wfs); reveal(step_ok); reveal_with_fuel(tiled, 3);
    let len = st0.len() as int; let l = st0[len - 1].0 as nat; let s2 = st0.subrange(0, len - 2);
    assert(st0.drop_last().drop_last() =~= s2);
    assert(st0.drop_last().last() == st0[len - 2] && st0.last() == st0[len - 1]);
    lemma_pw_unfold(l + 1);
    let w = pd.subrange(n0 - pw(l + 1), n0);
    assert(w.subrange(0, pw(l) as int) =~= pd.subrange(n0 - pw(l) - pw(l), n0 - pw(l)));
    assert(w.subrange(pw(l) as int, 2 * pw(l) as int) =~= pd.subrange(n0 - pw(l), n0));
    assert(tiled(ch, pd, s2, n0 - pw(l + 1)));
    if l + 1 == d { assert(s2.len() == 0) by { if s2.len() > 0 { assert(st0[0].0 > st0[len - 1].0); } } }
    lemma_levels_after_fold(st0, d);
    lemma_stack_sum_pop2(st0);
}
pub proof fn lemma_step_read2(ch: Seq<FS>, pd: Seq<FS>, d: nat, st0: Seq<(usize, Fr)>, n0: int, rhs: FS, lhs: FS)
    requires wfs(ch, pd, d, st0, n0), d >= 1, !(st0.len() > 1 && st0[st0.len() - 1].0 == st0[st0.len() - 2].0), st0.len() == 0 || st0[st0.len() - 1].0 != 0,
        n0 + 2 <= pd.len(), pd[n0] == rhs, pd[n0 + 1] == lhs
    ensures step_ok(ch, pd, d, st0, n0 + 2, 1, f_add(f_mul(ch[0], rhs), lhs))
{
    reveal(wfs); reveal(step_ok); reveal_with_fuel(ffold, 3);
    lemma_pw_unfold(1); lemma_pw0();
    let w = pd.subrange(n0, n0 + 2);
    assert(w.subrange(0, 1)[0] == pd[n0] && w.subrange(1, 2)[0] == pd[n0 + 1]);
    ax_mul_comm(ch[0], rhs);
    assert(ffold(ch, 0, w.subrange(0, 1)) == rhs && ffold(ch, 0, w.subrange(1, 2)) == lhs);
    assert forall|v: Fr| 1 < d implies levels_ok(#[trigger] st0.push((1usize, v)), d) by { lemma_levels_after_push1(st0, d, v); }
    lemma_levels_after_push1(st0, d, Fr::mk(f_zero()));
}
pub proof fn lemma_step_read1(ch: Seq<FS>, pd: Seq<FS>, d: nat, st0: Seq<(usize, Fr)>, n0: int, c: FS)
    requires wfs(ch, pd, d, st0, n0), !(st0.len() > 1 && st0[st0.len() - 1].0 == st0[st0.len() - 2].0), n0 + 1 <= pd.len(), pd[n0] == c
    ensures step_ok(ch, pd, d, st0, n0 + 1, 0, c)
{
    reveal(wfs); reveal(step_ok);
    lemma_pw0();
    assert(pd.subrange(n0, n0 + 1)[0] == pd[n0]);
    if d == 0 { assert(st0.len() == 0) by { if st0.len() > 0 { assert(st0[0].0 < d); } } }
    assert forall|v: Fr| 0 < d implies levels_ok(#[trigger] st0.push((0usize, v)), d) by { lemma_levels_after_read(st0, d, v); }
}
pub proof fn lemma_finish_push(ch: Seq<FS>, pd: Seq<FS>, d: nat, stm: Seq<(usize, Fr)>, n1: int, lv: usize, e: Fr)
    requires step_ok(ch, pd, d, stm, n1, lv as nat, e@), lv < d
    ensures wfs(ch, pd, d, stm.push((lv, e)), n1)
{
    reveal(wfs); reveal(step_ok); reveal_with_fuel(tiled, 2);
    lemma_stack_sum_push(stm, (lv, e));
    assert(stm.push((lv, e)).drop_last() =~= stm);
    assert(((lv as nat) as usize) == lv);
    assert(levels_ok(stm.push(((lv as nat) as usize, e)), d));
    assert(stm.push((lv, e)).last() == (lv, e));
}
pub proof fn lemma_finish_return(ch: Seq<FS>, pd: Seq<FS>, d: nat, stm: Seq<(usize, Fr)>, n1: int, e: FS)
    requires step_ok(ch, pd, d, stm, n1, d, e)
    ensures stm.len() == 0, n1 >= pw(d), n1 % (pw(d) as int) == 0, wfs(ch, pd, d, stm, n1), e == ffold(ch, d, pd.subrange(n1 - pw(d), n1))
{
    reveal(wfs); reveal(step_ok);
    vstd::arithmetic::power2::lemma_pow2_pos(d);
    assert(stack_sum(stm, 0) == 0);
    lemma_mod_shift(n1, pw(d) as int);
}
pub proof fn lemma_step_value(ch: Seq<FS>, pd: Seq<FS>, d: nat, stm: Seq<(usize, Fr)>, n1: int, lv: nat, e: FS)
    requires step_ok(ch, pd, d, stm, n1, lv, e)
    ensures lv <= d, pw(lv) <= n1, n1 <= pd.len(), e == ffold(ch, lv, pd.subrange(n1 - pw(lv), n1))
{ reveal(step_ok); }
pub proof fn lemma_wfs_init(ch: Seq<FS>, data: Seq<Fr>, d: nat, st: Seq<(usize, Fr)>)
    requires d < 63,
        forall|j: int| 0 <= j < st.len() ==> (#[trigger] st[j]).0 < d && st[j].1@ == f_zero(),
        forall|a: int, b: int| 0 <= a < b < st.len() ==> st[a].0 > st[b].0,
        (data.len() as nat) % pw(d) == 0 ==> st.len() == 0,
        (data.len() as nat) % pw(d) != 0 ==> stack_sum(st, st.len()) == pw(d) - (data.len() as nat) % pw(d),
    ensures wfs(ch, padded(data, d), d, st, padlen(data.len(), d) as int)
{
    reveal(wfs);
    lemma_init_wf(ch, data, d, st);
    vstd::arithmetic::power2::lemma_pow2_pos(d);
    assert(stack_sum(st, st.len()) == padlen(data.len(), d)) by { if data.len() % pw(d) == 0 { assert(stack_sum(st, 0) == 0); } }
    lemma_padded_len(data, d);
    vstd::arithmetic::div_mod::lemma_small_mod(0, pw(d));
    let n = padlen(data.len(), d) as int;
    assert(((n - stack_sum(st, st.len())) as nat) == 0);
}
