// ===== spec/pst13_complete.rs : PROVED - completeness algebra of MarlinPST13 (commit / open / check), from the field axioms =====
// a term-indexed commitment under a key in trapdoor form is the generator times the polynomial's value at the trapdoor point
pub proof fn lemma_tcomm(keys: Seq<FS>, ts: Seq<(Fr, Term)>, g: FS, beta: Asg, n: nat)
    requires n <= ts.len(), keys.len() == ts.len(), forall|k: int| 0 <= k < n ==> #[trigger] keys[k] == f_mul(g, te(ts[k].1.v@, beta))
    ensures dot(keys, coeffs_of(ts), n) == f_mul(g, mve(ts.take(n as int), beta))
    decreases n
{
    if n == 0 { lemma_mul_zero(g); assert(ts.take(0).len() == 0); }
    else {
        let m = (n - 1) as nat;
        lemma_tcomm(keys, ts, g, beta, m);
        let a = ts.take(n as int);
        assert(a.drop_last() =~= ts.take(m as int));
        assert(a.last() == ts[m as int]);
        let c = ts[m as int].0@; let t = te(ts[m as int].1.v@, beta);
        assert(coeffs_of(ts)[m as int] == c);
        // (g t) c == g (c t)
        ax_mul_assoc(g, t, c); ax_mul_comm(t, c);
        ax_distrib(g, mve(ts.take(m as int), beta), f_mul(c, t));
    }
}
// sum_{i<k} (G a_i + Gm b_i) * (d_i H)  ==  H * (G * sum a_i d_i + Gm * sum b_i d_i)
pub open spec fn wsum(a: Seq<FS>, d: Seq<FS>, k: nat) -> FS decreases k { if k == 0 { f_zero() } else { f_add(wsum(a, d, (k - 1) as nat), f_mul(d[k - 1], a[k - 1])) } }
pub open spec fn psum(gg: FS, gm: FS, hh: FS, a: Seq<FS>, b: Seq<FS>, d: Seq<FS>, k: nat) -> FS decreases k {
    if k == 0 { f_zero() } else { f_add(psum(gg, gm, hh, a, b, d, (k - 1) as nat), f_mul(f_add(f_mul(gg, a[k - 1]), f_mul(gm, b[k - 1])), f_mul(d[k - 1], hh))) }
}
pub proof fn lemma_psum(gg: FS, gm: FS, hh: FS, a: Seq<FS>, b: Seq<FS>, d: Seq<FS>, k: nat)
    requires k <= a.len(), k <= b.len(), k <= d.len()
    ensures psum(gg, gm, hh, a, b, d, k) == f_mul(f_add(f_mul(gg, wsum(a, d, k)), f_mul(gm, wsum(b, d, k))), hh)
    decreases k
{
    if k == 0 { lemma_mul_zero(gg); lemma_mul_zero(gm); ax_add_zero(f_zero()); lemma_mul_zero(hh); }
    else {
        let m = (k - 1) as nat;
        lemma_psum(gg, gm, hh, a, b, d, m);
        let A = wsum(a, d, m); let B = wsum(b, d, m); let x = a[m as int]; let y = b[m as int]; let e = d[m as int];
        // new term: (gg x + gm y)(e hh) == (gg (e x) + gm (e y)) hh
        let lhs_t = f_mul(f_add(f_mul(gg, x), f_mul(gm, y)), f_mul(e, hh));
        assert(lhs_t == f_mul(f_add(f_mul(gg, f_mul(e, x)), f_mul(gm, f_mul(e, y))), hh)) by {
            ax_mul_assoc(f_add(f_mul(gg, x), f_mul(gm, y)), e, hh);
            ax_mul_comm(f_add(f_mul(gg, x), f_mul(gm, y)), e);
            ax_distrib(e, f_mul(gg, x), f_mul(gm, y));
            lemma_mul_lcomm(e, gg, x); lemma_mul_lcomm(e, gm, y);
        }
        // (gg A + gm B) hh + (gg ex + gm ey) hh == (gg (A + ex) + gm (B + ey)) hh
        let u = f_add(f_mul(gg, A), f_mul(gm, B)); let v = f_add(f_mul(gg, f_mul(e, x)), f_mul(gm, f_mul(e, y)));
        ax_mul_comm(u, hh); ax_mul_comm(v, hh); ax_distrib(hh, u, v); ax_mul_comm(hh, f_add(u, v));
        ax_distrib(gg, A, f_mul(e, x)); ax_distrib(gm, B, f_mul(e, y));
        lemma_add_swap(f_mul(gg, A), f_mul(gm, B), f_mul(gg, f_mul(e, x)), f_mul(gm, f_mul(e, y)));
    }
}
// ---- the verifier's relation (same text as the clause proved for MarlinPST13::check in units/pst13.rs) ----
pub open spec fn pst_rhs(vk: &VerifierKey, w: Seq<G1Affine>, z: Seq<Fr>, k: nat) -> FS decreases k {
    if k == 0 { f_zero() } else { f_add(pst_rhs(vk, w, z, (k - 1) as nat), pair(w[k - 1]@, f_sub(vk.beta_h@[k - 1]@, f_mul(vk.h@, z[k - 1]@)))) }
}
pub open spec fn pst_inner(vk: &VerifierKey, c: FS, v: FS, pr: &Proof) -> FS {
    let i0 = f_sub(c, f_mul(vk.g@, v));
    match pr.random_v { Some(rv) => f_sub(i0, f_mul(vk.gamma_g@, rv@)), None => i0 }
}
// challenge-weighted sums over commitments and claimed values without degree bounds: sum_j C_j xi_j, sum_j v_j xi_j  (acc_c0 / acc_v of spec/marlin_acc_spec.rs)
pub open spec fn pst_cacc(cs: Seq<&LabeledCommitment<marlin_pc::Commitment>>, s: SS, k: nat) -> FS decreases k { if k == 0 { f_zero() } else { f_add(pst_cacc(cs, s, (k - 1) as nat), f_mul(cs[k - 1].commitment.comm.0@, sp_chal(s, (k - 1) as nat))) } }
pub open spec fn pst_vacc(vs: Seq<Fr>, s: SS, k: nat) -> FS decreases k { if k == 0 { f_zero() } else { f_add(pst_vacc(vs, s, (k - 1) as nat), f_mul(vs[k - 1]@, sp_chal(s, (k - 1) as nat))) } }
pub open spec fn univariate_terms(ts: Seq<(Fr, Term)>) -> bool { forall|k: int| 0 <= k < ts.len() ==> (#[trigger] ts[k]).1.v@.len() <= 1 }
pub open spec fn pst_trapdoor(ck: &CommitterKey, vk: &VerifierKey, g: FS, gm: FS, hh: FS, beta: Asg) -> bool {
    (forall|m: Seq<(usize, usize)>| #[trigger] pst_key(&ck.powers_of_g, m) == f_mul(g, te(m, beta)))
    && (forall|m: Seq<(usize, usize)>| m.len() <= 1 ==> #[trigger] gamma_key(ck, m) == f_mul(gm, te(m, beta)))
    && vk.g@ == g && vk.gamma_g@ == gm && vk.h@ == hh && (forall|j: int| 0 <= j < vk.beta_h@.len() ==> (#[trigger] vk.beta_h@[j])@ == f_mul(beta(j), hh))
}
pub proof fn lemma_wcomm_trapdoor(ck: &CommitterKey, vk: &VerifierKey, g: FS, gm: FS, hh: FS, beta: Asg, w: &MvPoly)
    requires pst_trapdoor(ck, vk, g, gm, hh, beta)
    ensures wcomm(ck, w) == f_mul(g, mve(w.terms@, beta))
{
    let ts = w.terms@;
    assert forall|k: int| 0 <= k < ts.len() implies #[trigger] keys_of(&ck.powers_of_g, ts)[k] == f_mul(g, te(ts[k].1.v@, beta)) by { }
    lemma_tcomm(keys_of(&ck.powers_of_g, ts), ts, g, beta, ts.len());
    assert(ts.take(ts.len() as int) =~= ts);
}
pub proof fn lemma_hcomm_trapdoor(ck: &CommitterKey, vk: &VerifierKey, g: FS, gm: FS, hh: FS, beta: Asg, w: &MvPoly)
    requires pst_trapdoor(ck, vk, g, gm, hh, beta), univariate_terms(w.terms@)
    ensures hcomm(ck, w) == f_mul(gm, mve(w.terms@, beta))
{
    let ts = w.terms@;
    assert forall|k: int| 0 <= k < ts.len() implies #[trigger] gkeys_of(ck, ts)[k] == f_mul(gm, te(ts[k].1.v@, beta)) by { assert(ts[k].1.v@.len() <= 1); }
    lemma_tcomm(gkeys_of(ck, ts), ts, gm, beta, ts.len());
    assert(ts.take(ts.len() as int) =~= ts);
}
// sum_j C_j xi_j  with  C_j = G p_j(beta) + Gm r_j(beta)   is   G P(beta) + Gm R(beta)
pub proof fn lemma_cacc(cs: Seq<&LabeledCommitment<marlin_pc::Commitment>>, ps: Seq<&LabeledMv>, sts: Seq<&Randomness>, s: SS, g: FS, gm: FS, beta: Asg, k: nat)
    requires k <= cs.len(), k <= ps.len(), k <= sts.len(),
        forall|j: int| 0 <= j < k ==> (#[trigger] cs[j]).commitment.comm.0@ == f_add(f_mul(g, mve(ps[j].polynomial.terms@, beta)), f_mul(gm, mve(sts[j].blinding_polynomial.terms@, beta)))
    ensures pst_cacc(cs, s, k) == f_add(f_mul(g, pacc(ps, s, k, beta)), f_mul(gm, racc(sts, s, k, beta)))
    decreases k
{
    if k == 0 { lemma_mul_zero(g); lemma_mul_zero(gm); ax_add_zero(f_zero()); }
    else {
        let m = (k - 1) as nat;
        lemma_cacc(cs, ps, sts, s, g, gm, beta, m);
        let xi = sp_chal(s, m); let a = mve(ps[m as int].polynomial.terms@, beta); let b = mve(sts[m as int].blinding_polynomial.terms@, beta);
        let P = pacc(ps, s, m, beta); let R = racc(sts, s, m, beta);
        assert(cs[m as int].commitment.comm.0@ == f_add(f_mul(g, a), f_mul(gm, b)));
        // (g a + gm b) xi == g (xi a) + gm (xi b)
        let c = f_add(f_mul(g, a), f_mul(gm, b));
        assert(f_mul(c, xi) == f_add(f_mul(g, f_mul(xi, a)), f_mul(gm, f_mul(xi, b)))) by {
            ax_mul_comm(c, xi); ax_distrib(xi, f_mul(g, a), f_mul(gm, b)); lemma_mul_lcomm(xi, g, a); lemma_mul_lcomm(xi, gm, b);
        }
        ax_distrib(g, P, f_mul(xi, a)); ax_distrib(gm, R, f_mul(xi, b));
        lemma_add_swap(f_mul(g, P), f_mul(gm, R), f_mul(g, f_mul(xi, a)), f_mul(gm, f_mul(xi, b)));
        assert(sp_chal(s, m) == sp_sq_fe(sp_iter(s, m)));
    }
}
pub proof fn lemma_vacc(vs: Seq<Fr>, ps: Seq<&LabeledMv>, s: SS, z: Asg, k: nat)
    requires k <= vs.len(), k <= ps.len(), forall|j: int| 0 <= j < k ==> (#[trigger] vs[j])@ == mve(ps[j].polynomial.terms@, z)
    ensures pst_vacc(vs, s, k) == pacc(ps, s, k, z)
    decreases k
{ if k > 0 { lemma_vacc(vs, ps, s, z, (k - 1) as nat); ax_mul_comm(vs[k - 1]@, sp_chal(s, (k - 1) as nat)); } }
// the witness sums are the quotient sums
pub open spec fn aseq(ws: Seq<MvPoly>, beta: Asg, n: nat) -> Seq<FS> { Seq::new(n, |i: int| if 0 <= i < ws.len() { mve(ws[i].terms@, beta) } else { f_zero() }) }
pub open spec fn dseq(beta: Asg, z: Asg, n: nat) -> Seq<FS> { Seq::new(n, |i: int| f_sub(beta(i), z(i))) }
pub proof fn lemma_wsum_qsum(ws: Seq<MvPoly>, beta: Asg, z: Asg, n: nat, k: nat)
    requires k <= n
    ensures wsum(aseq(ws, beta, n), dseq(beta, z, n), k) == qsum(ws, beta, z, min(k, ws.len()))
    decreases k
{
    if k > 0 {
        let m = (k - 1) as nat;
        lemma_wsum_qsum(ws, beta, z, n, m);
        if m >= ws.len() { lemma_mul_zero(dseq(beta, z, n)[m as int]); ax_add_zero(wsum(aseq(ws, beta, n), dseq(beta, z, n), m)); }
    }
}
pub proof fn lemma_rhs(vk: &VerifierKey, w: Seq<G1Affine>, zpt: Seq<Fr>, g: FS, gm: FS, hh: FS, beta: Asg, a: Seq<FS>, b: Seq<FS>, d: Seq<FS>, k: nat)
    requires k <= w.len(), k <= vk.beta_h@.len(), k <= zpt.len(), k <= a.len(), k <= b.len(), k <= d.len(), vk.h@ == hh,
        forall|j: int| 0 <= j < vk.beta_h@.len() ==> (#[trigger] vk.beta_h@[j])@ == f_mul(beta(j), hh),
        forall|i: int| 0 <= i < k ==> (#[trigger] w[i])@ == f_add(f_mul(g, a[i]), f_mul(gm, b[i])) && d[i] == f_sub(beta(i), zpt[i]@)
    ensures pst_rhs(vk, w, zpt, k) == psum(g, gm, hh, a, b, d, k)
    decreases k
{
    if k > 0 {
        let m = (k - 1) as nat;
        lemma_rhs(vk, w, zpt, g, gm, hh, beta, a, b, d, m);
        // beta_m hh - hh z_m == (beta_m - z_m) hh
        assert(vk.beta_h@[m as int]@ == f_mul(beta(m as int), hh));
        ax_mul_comm(hh, zpt[m as int]@);
        lemma_distrib_sub(hh, beta(m as int), zpt[m as int]@);
        ax_mul_comm(hh, beta(m as int)); ax_mul_comm(hh, f_sub(beta(m as int), zpt[m as int]@));
    }
}
// (g P + gm R) - g V - gm RV == g (P - V) + gm (R - RV)
pub proof fn lemma_inner_alg(g: FS, gm: FS, pb: FS, rb: FS, v: FS, rv: FS)
    ensures f_sub(f_sub(f_add(f_mul(g, pb), f_mul(gm, rb)), f_mul(g, v)), f_mul(gm, rv)) == f_add(f_mul(g, f_sub(pb, v)), f_mul(gm, f_sub(rb, rv)))
{
    lemma_distrib_sub(g, pb, v); lemma_distrib_sub(gm, rb, rv);
    let a = f_mul(g, pb); let b = f_mul(gm, rb); let c = f_neg(f_mul(g, v)); let d = f_neg(f_mul(gm, rv));
    // ((a + b) + c) + d == (a + c) + (b + d)
    ax_add_assoc(f_add(a, b), c, d);
    lemma_add_swap(a, b, c, d);
}
// C01 / C15 for MarlinPST13 (single opening, any number of polynomials at the point): what `open` puts into the proof for commitments
// made by `commit`, under a key in trapdoor form, satisfies the pairing equation `check` decides - for every polynomial with mixed
// monomials, every point, hiding or not, also when the polynomials use fewer variables than the key
pub proof fn lemma_pst13_complete_alg(ck: &CommitterKey, vk: &VerifierKey, g: FS, gm: FS, hh: FS, beta: Asg,
        ps: Seq<&LabeledMv>, cs: Seq<&LabeledCommitment<marlin_pc::Commitment>>, sts: Seq<&Randomness>, vs: Seq<Fr>, point: Seq<Fr>, s0: SS, pr: &Proof,
        p: MvPoly, r: MvPoly, ws: Seq<MvPoly>, hws: Seq<MvPoly>)
    requires
        pst_trapdoor(ck, vk, g, gm, hh, beta),
        sts.len() == ps.len(), cs.len() == ps.len(), vs.len() == ps.len(),
        forall|j: int| 0 <= j < ps.len() ==> pst_commit_one(ck, #[trigger] ps[j], cs[j], sts[j]) && univariate_terms(sts[j].blinding_polynomial.terms@),
        forall|j: int| 0 <= j < ps.len() ==> (#[trigger] vs[j])@ == mve(ps[j].polynomial.terms@, zf(point)),
        pst_open_rel(ck, ps, point, sts, s0, pr, p, r, ws, hws),
        pr.random_v is Some ==> forall|i: int| 0 <= i < hws.len() ==> univariate_terms((#[trigger] hws[i]).terms@),
        pr.w@.len() <= vk.beta_h@.len(), pr.w@.len() <= point.len(),
    ensures
        pair(pst_inner(vk, pst_cacc(cs, s0, ps.len()), pst_vacc(vs, s0, ps.len()), pr), vk.h@) == pst_rhs(vk, pr.w@, point, pr.w@.len()),
{
    let n = ps.len(); let z = zf(point); let wn = pr.w@.len(); let hid = pr.random_v is Some;
    let pb = mve(p.terms@, beta); let pz = mve(p.terms@, z); let rb = mve(r.terms@, beta); let rz = mve(r.terms@, z);
    // commitments and values
    assert forall|j: int| 0 <= j < n implies (#[trigger] cs[j]).commitment.comm.0@ == f_add(f_mul(g, mve(ps[j].polynomial.terms@, beta)), f_mul(gm, mve(sts[j].blinding_polynomial.terms@, beta))) by {
        assert(pst_commit_one(ck, ps[j], cs[j], sts[j])); reveal(pst_commit_one);
        lemma_wcomm_trapdoor(ck, vk, g, gm, hh, beta, &ps[j].polynomial);
        lemma_hcomm_trapdoor(ck, vk, g, gm, hh, beta, &sts[j].blinding_polynomial);
    }
    lemma_cacc(cs, ps, sts, s0, g, gm, beta, n);
    lemma_vacc(vs, ps, s0, z, n);
    assert(pb == pacc(ps, s0, n, beta) && rb == racc(sts, s0, n, beta) && pz == pacc(ps, s0, n, z));
    let cc = pst_cacc(cs, s0, n); let vv = pst_vacc(vs, s0, n);
    assert(cc == f_add(f_mul(g, pb), f_mul(gm, rb)) && vv == pz);
    // witnesses
    let a = aseq(ws, beta, wn); let hsel = if hid { hws } else { Seq::<MvPoly>::empty() }; let b = aseq(hsel, beta, wn); let d = dseq(beta, z, wn);
    assert forall|i: int| 0 <= i < wn implies (#[trigger] pr.w@[i])@ == f_add(f_mul(g, a[i]), f_mul(gm, b[i])) && d[i] == f_sub(beta(i), point[i]@) by {
        if i < ws.len() { lemma_wcomm_trapdoor(ck, vk, g, gm, hh, beta, &ws[i]); } else { lemma_mul_zero(g); }
        if hid { lemma_hcomm_trapdoor(ck, vk, g, gm, hh, beta, &hws[i]); } else { lemma_mul_zero(gm); ax_add_zero(f_mul(g, a[i])); }
    }
    lemma_rhs(vk, pr.w@, point, g, gm, hh, beta, a, b, d, wn);
    lemma_psum(g, gm, hh, a, b, d, wn);
    lemma_wsum_qsum(ws, beta, z, wn, wn);
    lemma_wsum_qsum(hsel, beta, z, wn, wn);
    assert(wsum(a, d, wn) == f_sub(pb, pz));
    let y = wsum(b, d, wn);
    // the verifier's left-hand side
    if hid {
        assert(y == f_sub(rb, rz));
        lemma_inner_alg(g, gm, pb, rb, pz, rz);
    } else {
        assert(y == f_zero()); assert(rb == f_zero());
        lemma_mul_zero(gm); ax_add_zero(f_mul(g, pb)); lemma_distrib_sub(g, pb, pz); ax_add_zero(f_mul(g, f_sub(pb, pz)));
    }
}

