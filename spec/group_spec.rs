// ===== spec/group_spec.rs : grouping of a query set by point label, commitments by label, per-group inputs (shared by all batch methods) =====
// ======================= specification =======================
// the grouping of the queries by point label, as built by iterating the query set: the point of a group is the point of the
// first query seen with that point label; its labels are all polynomial labels queried under that point label
pub open spec fn gmap(q: Seq<(String, (String, Pt))>, k: nat) -> Map<String, (Pt, Set<String>)> decreases k {
    if k == 0 { Map::empty() } else {
        let m = gmap(q, (k - 1) as nat); let e = q[k - 1];
        if m.dom().contains(e.1.0) { m.insert(e.1.0, (m[e.1.0].0, m[e.1.0].1.insert(e.0))) } else { m.insert(e.1.0, (e.1.1, Set::<String>::empty().insert(e.0))) }
    }
}
// commitments by label: the last one wins (BTreeMap::from_iter)
pub open spec fn c_is_last(cs: Seq<&LabeledCommitment<Comm>>, i: int) -> bool { 0 <= i < cs.len() && forall|j: int| i < j < cs.len() ==> (#[trigger] cs[j]).label != cs[i].label }
pub open spec fn cmap_ok(m: Map<&String, &LabeledCommitment<Comm>>, cs: Seq<&LabeledCommitment<Comm>>) -> bool {
    (forall|k: &String| m.dom().contains(k) == (exists|i: int| 0 <= i < cs.len() && (#[trigger] cs[i]).label == *k))
    && (forall|i: int| #[trigger] c_is_last(cs, i) ==> m[&cs[i].label] == cs[i])
}
// the per-group inputs of `check`: commitments and claimed values of the group's labels, in label order
pub open spec fn gather_ok(m: Map<&String, &LabeledCommitment<Comm>>, ev: Map<(String, Pt), Fr>, pt: Pt, ls: Seq<String>, k: nat) -> bool {
    forall|i: int| 0 <= i < k ==> m.dom().contains(&#[trigger] ls[i]) && ev.dom().contains((ls[i], pt))
}
pub open spec fn gather_c<'a>(m: Map<&'a String, &'a LabeledCommitment<Comm>>, ls: Seq<String>) -> Seq<&'a LabeledCommitment<Comm>> { Seq::new(ls.len(), |i: int| m[&ls[i]]) }
pub open spec fn gather_v(ev: Map<(String, Pt), Fr>, pt: Pt, ls: Seq<String>) -> Seq<Fr> { Seq::new(ls.len(), |i: int| ev[(ls[i], pt)]) }
// the sorted group list of a query set: one entry per point label, in label order
pub open spec fn groups_of(qs: Set<(String, (String, Pt))>, gs: Seq<(String, (Pt, Set<String>))>) -> bool {
    let g = gmap(set_seq(qs), set_seq(qs).len());
    (forall|i: int, j: int| 0 <= i < j < gs.len() ==> (#[trigger] gs[i]).0 != (#[trigger] gs[j]).0)     // each point label once
    && (forall|i: int| 0 <= i < gs.len() ==> g.dom().contains((#[trigger] gs[i]).0) && gs[i].1 == g[gs[i].0])
    && (forall|k: String| g.dom().contains(k) ==> exists|i: int| 0 <= i < gs.len() && (#[trigger] gs[i]).0 == k)
    && (forall|i: int, j: int| 0 <= i < j < gs.len() ==> key_lt((#[trigger] gs[i]).0, (#[trigger] gs[j]).0))
}

pub open spec fn qmap_abs(m: Map<&String, (&Pt, BTreeSet<&String>)>, g: Map<String, (Pt, Set<String>)>) -> bool {
    (forall|k: &String| m.dom().contains(k) == g.dom().contains(*k))
    && (forall|k: &String| m.dom().contains(k) ==> *(#[trigger] m[k]).0 == g[*k].0 && set_vals(m[k].1@) == g[*k].1)
}
pub proof fn lemma_set_vals_insert(s: Set<&String>, r: &String)
    ensures set_vals(s.insert(r)) == set_vals(s).insert(*r), set_vals(Set::<&String>::empty()) == Set::<String>::empty()
{
    assert forall|x: String| set_vals(s.insert(r)).contains(x) == set_vals(s).insert(*r).contains(x) by {
        if set_vals(s.insert(r)).contains(x) { let w = choose|w: &String| s.insert(r).contains(w) && *w == x; if w != r { assert(s.contains(w)); } }
        if set_vals(s).insert(*r).contains(x) { if x == *r { assert(s.insert(r).contains(r)); } else { let w = choose|w: &String| s.contains(w) && *w == x; assert(s.insert(r).contains(w)); } }
    }
    assert(set_vals(s.insert(r)) =~= set_vals(s).insert(*r));
    assert(set_vals(Set::<&String>::empty()) =~= Set::<String>::empty());
}
// one query processed: the exec map follows gmap
pub proof fn lemma_gmap_step(m0: Map<&String, (&Pt, BTreeSet<&String>)>, m1: Map<&String, (&Pt, BTreeSet<&String>)>, q: Seq<(String, (String, Pt))>, k: nat, pl: &String, pt: &Pt, l: &String)
    requires
        k < q.len(), q[k as int] == (*l, (*pl, *pt)), qmap_abs(m0, gmap(q, k)),
        m1.dom() == m0.dom().insert(pl),
        m0.dom().contains(pl) ==> m1[pl].0 == m0[pl].0 && m1[pl].1@ == m0[pl].1@.insert(l),
        !m0.dom().contains(pl) ==> m1[pl].0 == pt && m1[pl].1@ == Set::<&String>::empty().insert(l),
        forall|k2: &String| k2 != pl && m0.dom().contains(k2) ==> m1[k2] == m0[k2],
    ensures qmap_abs(m1, gmap(q, k + 1))
{
    let g0 = gmap(q, k); let g1 = gmap(q, k + 1);
    assert(gmap(q, (k + 1) as nat) == if g0.dom().contains(*pl) { g0.insert(*pl, (g0[*pl].0, g0[*pl].1.insert(*l))) } else { g0.insert(*pl, (*pt, Set::<String>::empty().insert(*l))) });
    if m0.dom().contains(pl) { lemma_set_vals_insert(m0[pl].1@, l); } else { lemma_set_vals_insert(Set::<&String>::empty(), l); }
    assert forall|k2: &String| m1.dom().contains(k2) == g1.dom().contains(*k2) by { }
    assert forall|k2: &String| m1.dom().contains(k2) implies *(#[trigger] m1[k2]).0 == g1[*k2].0 && set_vals(m1[k2].1@) == g1[*k2].1 by {
        if k2 != pl { assert(m0.dom().contains(k2)); }
    }
}
pub proof fn lemma_groups(qs: Set<(String, (String, Pt))>, m: Map<&String, (&Pt, BTreeSet<&String>)>, gv: Seq<(&String, (&Pt, BTreeSet<&String>))>, gs: Seq<(String, (Pt, Set<String>))>)
    requires
        qmap_abs(m, gmap(set_seq(qs), set_seq(qs).len())),
        gv.len() == m.dom().len(), m.dom().finite(),
        forall|i: int| 0 <= i < gv.len() ==> m.dom().contains((#[trigger] gv[i]).0) && gv[i].1 == m[gv[i].0],
        forall|k: &String| m.dom().contains(k) ==> exists|i: int| 0 <= i < gv.len() && (#[trigger] gv[i]).0 == k,
        forall|i: int, j: int| 0 <= i < j < gv.len() ==> key_lt(*(#[trigger] gv[i]).0, *(#[trigger] gv[j]).0) && gv[i].0 != gv[j].0,
        gs == Seq::new(gv.len(), |i: int| (*gv[i].0, (*gv[i].1.0, set_vals(gv[i].1.1@)))),
    ensures groups_of(qs, gs)
{
    let g = gmap(set_seq(qs), set_seq(qs).len());
    assert forall|i: int, j: int| 0 <= i < j < gs.len() implies (#[trigger] gs[i]).0 != (#[trigger] gs[j]).0 by { assert(gv[i].0 != gv[j].0); }
    assert forall|k: String| g.dom().contains(k) implies exists|i: int| 0 <= i < gs.len() && (#[trigger] gs[i]).0 == k by {
        assert(m.dom().contains(&k));
        let i = choose|i: int| 0 <= i < gv.len() && (#[trigger] gv[i]).0 == &k; assert(gs[i].0 == k);
    }
    assert forall|i: int, j: int| 0 <= i < j < gs.len() implies key_lt((#[trigger] gs[i]).0, (#[trigger] gs[j]).0) by { assert(key_lt(*gv[i].0, *gv[j].0)); }
}
// every entry of the label -> commitment map is one of the listed commitments (the last one carrying that label)
pub proof fn lemma_last_with_label(cs: Seq<&LabeledCommitment<Comm>>, l: String, lo: int, n: int) -> (i: int)
    requires 0 <= lo < n <= cs.len(), cs[lo].label == l
    ensures lo <= i < n, cs[i].label == l, forall|j: int| i < j < n ==> (#[trigger] cs[j]).label != l
    decreases n - lo
{
    if forall|j: int| lo < j < n ==> (#[trigger] cs[j]).label != l { lo }
    else { let j = choose|j: int| lo < j < n && (#[trigger] cs[j]).label == l; lemma_last_with_label(cs, l, j, n) }
}
pub proof fn lemma_cmap_entry(m: Map<&String, &LabeledCommitment<Comm>>, cs: Seq<&LabeledCommitment<Comm>>, k: &String) -> (i: int)
    requires cmap_ok(m, cs), m.dom().contains(k)
    ensures 0 <= i < cs.len(), m[k] == cs[i], cs[i].label == *k
{
    let i0 = choose|i: int| 0 <= i < cs.len() && (#[trigger] cs[i]).label == *k;
    let i = lemma_last_with_label(cs, *k, i0, cs.len() as int);
    assert(c_is_last(cs, i));
    assert(m[&cs[i].label] == cs[i]);
    i
}
