// ===== spec/kzg10_spec.rs : KZG10 specification functions (oracle side; written from the papers, not from the code) =====
// ======================= specification (written from the KZG10 / Marlin papers) =======================
// e(C - v*G - rv*gammaG, H) = e(W, beta*H - z*H)
pub open spec fn kzg_lhs_raw(vk: &VerifierKey, comm: FS, value: FS, proof: &Proof) -> FS {
    let inner = f_sub(comm, f_mul(vk.g@, value));
    match proof.random_v {
        Some(rv) => f_sub(inner, f_mul(vk.gamma_g@, rv@)),
        None => inner,
    }
}
pub open spec fn kzg_relation_raw(vk: &VerifierKey, comm: FS, point: Fr, value: FS, proof: &Proof) -> bool {
    pair(kzg_lhs_raw(vk, comm, value, proof), vk.h@) == pair(proof.w@, f_sub(vk.beta_h@, f_mul(vk.h@, point@)))
}
pub open spec fn kzg_lhs(vk: &VerifierKey, comm: &Commitment, value: Fr, proof: &Proof) -> FS { kzg_lhs_raw(vk, comm.0@, value@, proof) }
pub open spec fn kzg_relation(vk: &VerifierKey, comm: &Commitment, point: Fr, value: Fr, proof: &Proof) -> bool { kzg_relation_raw(vk, comm.0@, point, value@, proof) }
// ---- KZG10::batch_check: random linear combination of the single checks.
//      r_0 = 1, r_i = (i-th 128-bit draw of the verifier's RNG);  n = number of complete (commitment, point, value, proof) tuples
pub open spec fn vk_wf(vk: &VerifierKey) -> bool { vk.prepared_h@ == vk.h@ && vk.prepared_beta_h@ == vk.beta_h@ }
pub open spec fn bc_len(cs: Seq<Commitment>, zs: Seq<Fr>, vs: Seq<Fr>, ps: Seq<Proof>) -> nat { min(min(min(cs.len(), zs.len()), vs.len()), ps.len()) }
pub open spec fn bc_r(id: int, pos: nat, i: nat) -> FS { if i == 0 { f_one() } else { draw_u128(id, (pos + i - 1) as nat) } }
pub open spec fn bc_total_c(cs: Seq<Commitment>, zs: Seq<Fr>, ps: Seq<Proof>, id: int, pos: nat, k: nat) -> FS decreases k {
    if k == 0 { f_zero() } else { let i = (k - 1) as nat;
        f_add(bc_total_c(cs, zs, ps, id, pos, i), f_mul(f_add(f_mul(ps[i as int].w@, zs[i as int]@), cs[i as int].0@), bc_r(id, pos, i))) }
}
pub open spec fn bc_total_w(ps: Seq<Proof>, id: int, pos: nat, k: nat) -> FS decreases k {
    if k == 0 { f_zero() } else { let i = (k - 1) as nat; f_add(bc_total_w(ps, id, pos, i), f_mul(ps[i as int].w@, bc_r(id, pos, i))) }
}
pub open spec fn bc_g_mult(vs: Seq<Fr>, id: int, pos: nat, k: nat) -> FS decreases k {
    if k == 0 { f_zero() } else { let i = (k - 1) as nat; f_add(bc_g_mult(vs, id, pos, i), f_mul(bc_r(id, pos, i), vs[i as int]@)) }
}
pub open spec fn bc_gamma_mult(ps: Seq<Proof>, id: int, pos: nat, k: nat) -> FS decreases k {
    if k == 0 { f_zero() } else { let i = (k - 1) as nat;
        match ps[i as int].random_v { Some(rv) => f_add(bc_gamma_mult(ps, id, pos, i), f_mul(bc_r(id, pos, i), rv@)), None => bc_gamma_mult(ps, id, pos, i) } }
}
// e(-sum r_i W_i, beta H) * e(sum r_i (C_i + z_i W_i) - (sum r_i v_i) G - (sum r_i rv_i) gamma G, H) == 1
pub open spec fn kzg_batch_relation(vk: &VerifierKey, cs: Seq<Commitment>, zs: Seq<Fr>, vs: Seq<Fr>, ps: Seq<Proof>, id: int, pos: nat, n: nat) -> bool {
    f_add(pair(f_neg(bc_total_w(ps, id, pos, n)), vk.beta_h@),
          pair(f_sub(f_sub(bc_total_c(cs, zs, ps, id, pos, n), f_mul(vk.g@, bc_g_mult(vs, id, pos, n))), f_mul(vk.gamma_g@, bc_gamma_mult(ps, id, pos, n))), vk.h@)) == f_zero()
}

// C02 on the raw relation (used for the challenge-combined commitment / value of the Marlin verifiers)
pub proof fn lemma_kzg_raw_value_unique(vk: &VerifierKey, comm: FS, point: Fr, v1: FS, v2: FS, proof: &Proof)
    requires vk.g@ != f_zero(), vk.h@ != f_zero(), kzg_relation_raw(vk, comm, point, v1, proof), kzg_relation_raw(vk, comm, point, v2, proof)
    ensures v1 == v2
{
    lemma_mul_cancel(kzg_lhs_raw(vk, comm, v1, proof), kzg_lhs_raw(vk, comm, v2, proof), vk.h@);
    let a1 = f_sub(comm, f_mul(vk.g@, v1)); let a2 = f_sub(comm, f_mul(vk.g@, v2));
    match proof.random_v { Some(rv) => { lemma_sub_cancel_right(a1, a2, f_mul(vk.gamma_g@, rv@)); } None => {} }
    lemma_sub_cancel_left(comm, f_mul(vk.g@, v1), f_mul(vk.g@, v2));
    ax_mul_comm(vk.g@, v1); ax_mul_comm(vk.g@, v2);
    lemma_mul_cancel(v1, v2, vk.g@);
}
