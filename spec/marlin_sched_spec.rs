// ===== spec/marlin_sched_spec.rs : number of challenges the Marlin verifier squeezes for the first k commitments =====
pub open spec fn nsq(cs: Seq<&LabeledCommitment<Commitment>>, k: nat) -> nat decreases k {
    if k == 0 { 0 } else { nsq(cs, (k - 1) as nat) + 1 + (if cs[k - 1].degree_bound is Some { 1nat } else { 0nat }) }
}
