// ===== spec/longdiv_spec.rs : PROVED - streaming long division of a big-endian coefficient stream by a monic polynomial (space-efficient multi-point prover) =====
// big-endian Horner value of the first k entries:  be(k+1) = be(k) x + s[k]
pub open spec fn be(s: Seq<FS>, x: FS, k: nat) -> FS decreases k { if k == 0 { f_zero() } else { f_add(f_mul(be(s, x, (k - 1) as nat), x), s[k - 1]) } }
proof fn ld_rcomm(a: FS, b: FS, c: FS) ensures f_mul(f_mul(a, b), c) == f_mul(f_mul(a, c), b)
{ ax_mul_assoc(a, b, c); ax_mul_comm(b, c); ax_mul_assoc(a, c, b); }
pub proof fn lemma_be_ext(a: Seq<FS>, b: Seq<FS>, x: FS, k: nat)
    requires k <= a.len(), k <= b.len(), forall|i: int| 0 <= i < k ==> a[i] == b[i]
    ensures be(a, x, k) == be(b, x, k)
    decreases k
{ if k > 0 { lemma_be_ext(a, b, x, (k - 1) as nat); } }
// leading entry split off:  be(s, k) = s[0] x^(k-1) + be(s[1..], k-1)
pub proof fn lemma_be_front(s: Seq<FS>, x: FS, k: nat)
    requires 1 <= k <= s.len()
    ensures be(s, x, k) == f_add(f_mul(s[0], f_pow(x, (k - 1) as nat)), be(s.subrange(1, s.len() as int), x, (k - 1) as nat))
    decreases k
{
    let t = s.subrange(1, s.len() as int);
    if k == 1 {
        assert(be(s, x, 0) == f_zero() && be(t, x, 0) == f_zero());
        lemma_mul_zero(x); ax_mul_one(s[0]); ax_add_comm(f_zero(), s[0]); ax_add_zero(s[0]);
        assert(f_pow(x, 0) == f_one());
    } else {
        lemma_be_front(s, x, (k - 1) as nat);
        assert(t[k - 2] == s[k - 1]);
        let a = f_mul(s[0], f_pow(x, (k - 2) as nat)); let b = be(t, x, (k - 2) as nat);
        // (a + b) x + s[k-1] == s[0] x^(k-1) + (b x + s[k-1])
        ax_mul_comm(f_add(a, b), x); ax_distrib(x, a, b); ax_mul_comm(x, a); ax_mul_comm(x, b);
        ax_mul_assoc(s[0], f_pow(x, (k - 2) as nat), x);
        assert(f_pow(x, (k - 1) as nat) == f_mul(f_pow(x, (k - 2) as nat), x));
        ax_add_assoc(f_mul(a, x), f_mul(b, x), s[k - 1]);
    }
}
// d = a - c b  (entrywise)  ==>  be(d) = be(a) - be(b) c
pub proof fn lemma_be_sub_scaled(a: Seq<FS>, b: Seq<FS>, d: Seq<FS>, c: FS, x: FS, k: nat)
    requires k <= a.len(), k <= b.len(), k <= d.len(), forall|i: int| 0 <= i < k ==> d[i] == f_sub(a[i], f_mul(b[i], c))
    ensures be(d, x, k) == f_sub(be(a, x, k), f_mul(be(b, x, k), c))
    decreases k
{
    if k == 0 { lemma_mul_zero(c); lemma_neg_zero(); ax_add_zero(f_zero()); } else {
        let m = (k - 1) as nat;
        lemma_be_sub_scaled(a, b, d, c, x, m);
        let A = be(a, x, m); let B = be(b, x, m); let an = a[m as int]; let bn = b[m as int];
        // ((A - B c) x + (an - bn c)) == (A x + an) - (B x + bn) c
        let Bc = f_mul(B, c);
        ax_mul_comm(f_sub(A, Bc), x); ax_distrib(x, A, f_neg(Bc)); ax_mul_comm(x, A); lemma_neg_mul(x, Bc); ax_mul_comm(x, Bc);
        ld_rcomm(B, c, x);
        // (Ax - Bxc) + (an - bn c)  ==  (Ax + an) - (Bx c + bn c)
        lemma_add_swap(f_mul(A, x), f_neg(f_mul(f_mul(B, x), c)), an, f_neg(f_mul(bn, c)));
        lemma_neg_add(f_mul(f_mul(B, x), c), f_mul(bn, c));
        ax_mul_comm(f_add(f_mul(B, x), bn), c); ax_distrib(c, f_mul(B, x), bn); ax_mul_comm(c, f_mul(B, x)); ax_mul_comm(c, bn);
    }
}
// ONE division step.  state (m >= 1 entries, leading first), qc = state[0], incoming coefficient cn, zr = the m low coefficients of the monic divisor
// (leading first):   be(state') + qc (x^m + be(zr))  ==  be(state) x + cn     where state'[i] = (state[1..] ++ [cn])[i] - zr[i] qc
pub proof fn lemma_div_step(st: Seq<FS>, st1: Seq<FS>, zr: Seq<FS>, cn: FS, x: FS, m: nat)
    requires m >= 1, st.len() == m, st1.len() == m, zr.len() == m,
        forall|i: int| 0 <= i < m ==> st1[i] == f_sub(st.subrange(1, m as int).push(cn)[i], f_mul(zr[i], st[0]))
    ensures f_add(be(st1, x, m), f_mul(st[0], f_add(f_pow(x, m), be(zr, x, m)))) == f_add(f_mul(be(st, x, m), x), cn)
{
    let qc = st[0]; let t = st.subrange(1, m as int); let sh = t.push(cn);
    lemma_be_sub_scaled(sh, zr, st1, qc, x, m);
    lemma_be_ext(sh, t, x, (m - 1) as nat);
    assert(sh[m - 1] == cn);
    lemma_be_front(st, x, m);
    let T = be(t, x, (m - 1) as nat); let Zl = be(zr, x, m);
    // be(sh) = T x + cn;   be(st) = qc x^(m-1) + T;   be(st1) = be(sh) - Zl qc
    assert(be(sh, x, m) == f_add(f_mul(T, x), cn));
    let bsh = be(sh, x, m);
    // lhs = (bsh - Zl qc) + qc (x^m + Zl) = bsh + qc x^m
    ax_distrib(qc, f_pow(x, m), Zl); ax_mul_comm(qc, Zl);
    let u = f_mul(Zl, qc); let v = f_mul(qc, f_pow(x, m));
    ax_add_comm(v, u);
    ax_add_assoc(bsh, f_neg(u), f_add(u, v)); ax_add_assoc(f_neg(u), u, v); ax_add_comm(f_neg(u), u); ax_add_neg(u); ax_add_comm(f_zero(), v); ax_add_zero(v);
    assert(f_add(f_sub(bsh, u), f_add(v, u)) == f_add(bsh, v));
    // rhs = (qc x^(m-1) + T) x + cn = qc x^m + T x + cn
    let w = f_mul(qc, f_pow(x, (m - 1) as nat));
    ax_mul_comm(f_add(w, T), x); ax_distrib(x, w, T); ax_mul_comm(x, w); ax_mul_comm(x, T);
    ax_mul_assoc(qc, f_pow(x, (m - 1) as nat), x);
    assert(f_pow(x, m) == f_mul(f_pow(x, (m - 1) as nat), x));
    ax_add_assoc(v, f_mul(T, x), cn); ax_add_comm(v, bsh);
}
// the invariant of the whole division is preserved:  P = Q Z + S   ==>   P x + cn = (Q x + qc) Z + S'   when  S' + qc Z = S x + cn
pub proof fn lemma_div_inv(p: FS, q: FS, z: FS, s: FS, s1: FS, qc: FS, cn: FS, x: FS)
    requires p == f_add(f_mul(q, z), s), f_add(s1, f_mul(qc, z)) == f_add(f_mul(s, x), cn)
    ensures f_add(f_mul(p, x), cn) == f_add(f_mul(f_add(f_mul(q, x), qc), z), s1)
{
    let qz = f_mul(q, z);
    ax_mul_comm(f_add(qz, s), x); ax_distrib(x, qz, s); ax_mul_comm(x, qz); ax_mul_comm(x, s);
    ld_rcomm(q, z, x);
    ax_add_assoc(f_mul(f_mul(q, x), z), f_mul(s, x), cn);
    ax_mul_comm(f_add(f_mul(q, x), qc), z); ax_distrib(z, f_mul(q, x), qc); ax_mul_comm(z, f_mul(q, x)); ax_mul_comm(z, qc);
    ax_add_comm(s1, f_mul(qc, z));
    ax_add_assoc(f_mul(f_mul(q, x), z), f_mul(qc, z), s1);
}
// little-endian evaluation of the low part of the divisor = big-endian value of its reversal
pub proof fn lemma_peval_is_be_rev(c: Seq<FS>, zr: Seq<FS>, x: FS, m: nat, k: nat)
    requires k <= m, m <= c.len(), zr.len() == m, forall|i: int| 0 <= i < m ==> zr[i] == c[m - 1 - i]
    ensures be(zr, x, k) == peval(c.subrange(m - k, m as int), x, k)
    decreases k
{
    if k > 0 {
        lemma_peval_is_be_rev(c, zr, x, m, (k - 1) as nat);
        let s = c.subrange(m - k, m as int);
        ld_peval_front(s, x, k);
        assert(s.subrange(1, s.len() as int) =~= c.subrange(m - (k - 1), m as int));
        ax_add_comm(s[0], f_mul(peval(s.subrange(1, s.len() as int), x, (k - 1) as nat), x));
    }
}
proof fn ld_peval_front(c: Seq<FS>, x: FS, n: nat)
    requires 1 <= n <= c.len()
    ensures peval(c, x, n) == f_add(c[0], f_mul(peval(c.subrange(1, c.len() as int), x, (n - 1) as nat), x))
    decreases n
{
    let t = c.subrange(1, c.len() as int);
    if n == 1 {
        assert(peval(c, x, 0) == f_zero() && peval(t, x, 0) == f_zero());
        lemma_mul_zero(x); ax_mul_one(c[0]); ax_add_zero(c[0]); ax_add_comm(f_zero(), c[0]);
        assert(f_pow(x, 0) == f_one());
    } else {
        ld_peval_front(c, x, (n - 1) as nat);
        assert(t[n - 2] == c[n - 1]);
        let a = c[0]; let tp = peval(t, x, (n - 2) as nat); let cn = c[n - 1]; let xp = f_pow(x, (n - 2) as nat);
        assert(f_pow(x, (n - 1) as nat) == f_mul(xp, x));
        ax_mul_comm(f_add(tp, f_mul(cn, xp)), x); ax_distrib(x, tp, f_mul(cn, xp)); ax_mul_comm(x, tp); ax_mul_comm(x, f_mul(cn, xp)); ax_mul_assoc(cn, xp, x);
        ax_add_assoc(a, f_mul(tp, x), f_mul(cn, f_mul(xp, x)));
    }
}
// ---- the loop invariant of the streaming division, and its three lemmas (introduction / step / conclusion) ----
#[verifier::opaque]
pub open spec fn smp_inv(f: Seq<FS>, qs: Seq<FS>, st: Seq<FS>, zr: Seq<FS>, m: nat, pi: nat) -> bool {
    m >= 1 && st.len() == m && zr.len() == m && m <= pi <= f.len() && qs.len() == pi - m
    && forall|x: FS| be(f, x, pi) == f_add(f_mul(#[trigger] be(qs, x, (pi - m) as nat), f_add(f_pow(x, m), be(zr, x, m))), be(st, x, m))
}
pub proof fn lemma_smp_init(f: Seq<FS>, st: Seq<FS>, zr: Seq<FS>, m: nat)
    requires m >= 1, m <= f.len(), st.len() == m, zr.len() == m, forall|i: int| 0 <= i < m ==> st[i] == f[i]
    ensures smp_inv(f, Seq::<FS>::empty(), st, zr, m, m)
{
    reveal(smp_inv);
    let qs = Seq::<FS>::empty();
    assert forall|x: FS| be(f, x, m) == f_add(f_mul(#[trigger] be(qs, x, 0), f_add(f_pow(x, m), be(zr, x, m))), be(st, x, m)) by {
        lemma_be_ext(f, st, x, m);
        lemma_mul_zero(f_add(f_pow(x, m), be(zr, x, m)));
        ax_add_comm(f_zero(), be(st, x, m)); ax_add_zero(be(st, x, m));
    }
}
pub proof fn lemma_smp_step(f: Seq<FS>, qs: Seq<FS>, st: Seq<FS>, st1: Seq<FS>, zr: Seq<FS>, m: nat, pi: nat)
    requires smp_inv(f, qs, st, zr, m, pi), pi < f.len(), st1.len() == m,
        forall|i: int| 0 <= i < m ==> st1[i] == f_sub(st.subrange(1, m as int).push(f[pi as int])[i], f_mul(zr[i], st[0]))
    ensures smp_inv(f, qs.push(st[0]), st1, zr, m, pi + 1)
{
    reveal(smp_inv);
    let q1 = qs.push(st[0]); let k = (pi - m) as nat; let cn = f[pi as int];
    assert forall|x: FS| be(f, x, pi + 1) == f_add(f_mul(#[trigger] be(q1, x, k + 1), f_add(f_pow(x, m), be(zr, x, m))), be(st1, x, m)) by {
        let zx = f_add(f_pow(x, m), be(zr, x, m));
        lemma_div_step(st, st1, zr, cn, x, m);
        assert(be(f, x, pi) == f_add(f_mul(be(qs, x, k), zx), be(st, x, m)));
        lemma_div_inv(be(f, x, pi), be(qs, x, k), zx, be(st, x, m), be(st1, x, m), st[0], cn, x);
        lemma_be_ext(q1, qs, x, k);
        assert(q1[k as int] == st[0]);
    }
}
pub proof fn lemma_smp_final(f: Seq<FS>, qs: Seq<FS>, st: Seq<FS>, zr: Seq<FS>, zc: Seq<FS>, m: nat, x: FS)
    requires smp_inv(f, qs, st, zr, m, f.len()), zc.len() == m + 1, zc[m as int] == f_one(), forall|i: int| 0 <= i < m ==> zr[i] == zc[m - 1 - i]
    ensures be(f, x, f.len()) == f_add(f_mul(be(qs, x, (f.len() - m) as nat), peval(zc, x, m + 1)), be(st, x, m))
{
    reveal(smp_inv);
    assert(be(f, x, f.len()) == f_add(f_mul(be(qs, x, (f.len() - m) as nat), f_add(f_pow(x, m), be(zr, x, m))), be(st, x, m)));
    lemma_peval_is_be_rev(zc, zr, x, m, m);
    assert(zc.subrange(0, m as int).len() == m);
    lemma_peval_ext(zc.subrange(0, m as int), zc, x, m);
    // peval(zc, m+1) = peval(zc, m) + 1 * x^m
    ax_mul_comm(f_one(), f_pow(x, m)); ax_mul_one(f_pow(x, m));
    ax_add_comm(f_pow(x, m), be(zr, x, m));
}
