// ===== spec/ipa_spec.rs : inner-product-argument verifier relation (shared by check and batch_check units) =====
// ======================= specification =======================
// ro_chal(bytes): compute_random_oracle_challenge, defined in spec/h2c_spec.rs (first field element of the try-and-increment sequence over bytes || t)
// scp_eval / scp_coeffs (the succinct check polynomial and its expansion): spec/scp_spec.rs
// accumulation over the commitments: challenges xi_0, xi_1, ... squeezed one after the other (two per polynomial)
pub open spec fn ipa_acc_v(cs: Seq<&LabeledCommitment<Commitment>>, vs: Seq<Fr>, z: FS, d: nat, s: SS, k: nat) -> FS decreases k {
    if k == 0 { f_zero() } else { let j = (k - 1) as nat; let a = f_add(ipa_acc_v(cs, vs, z, d, s, j), f_mul(sp_chal(s, 2 * j), vs[j as int]@));
        match cs[j as int].degree_bound { Some(b) => f_add(a, f_mul(f_mul(sp_chal(s, 2 * j + 1), vs[j as int]@), f_pow(z, (d - b) as nat))), None => a } }
}
pub open spec fn ipa_acc_c(cs: Seq<&LabeledCommitment<Commitment>>, s: SS, k: nat) -> FS decreases k {
    if k == 0 { f_zero() } else { let j = (k - 1) as nat; let a = f_add(ipa_acc_c(cs, s, j), f_mul(cs[j as int].commitment.comm@, sp_chal(s, 2 * j)));
        match cs[j as int].degree_bound { Some(b) => f_add(a, f_mul(cs[j as int].commitment.shifted_comm->Some_0@, sp_chal(s, 2 * j + 1))), None => a } }
}

// round challenges rc_0 = RO(C || z || v),  rc_{k+1} = RO(rc_k || L_k || R_k);  folded commitment after k rounds
pub open spec fn ipa_rc(first: FS, ls: Seq<G1Affine>, rs: Seq<G1Affine>, k: nat) -> FS decreases k {
    if k == 0 { first } else { ro_chal(Seq::<u8>::empty() + fr_ser_u(ipa_rc(first, ls, rs, (k - 1) as nat)) + g1_ser_u(ls[k - 1]@) + g1_ser_u(rs[k - 1]@)) }
}
pub open spec fn ipa_rcomm(start: FS, first: FS, ls: Seq<G1Affine>, rs: Seq<G1Affine>, k: nat) -> FS decreases k {
    if k == 0 { start } else { f_add(ipa_rcomm(start, first, ls, rs, (k - 1) as nat),
        f_add(f_mul(ls[k - 1]@, f_inv(ipa_rc(first, ls, rs, k))), f_mul(rs[k - 1]@, ipa_rc(first, ls, rs, k)))) }
}
pub open spec fn ipa_rcs(first: FS, ls: Seq<G1Affine>, rs: Seq<G1Affine>, n: nat) -> Seq<FS> { Seq::new(n, |i: int| ipa_rc(first, ls, rs, (i + 1) as nat)) }
// the accumulated commitment (with the hiding correction) that enters the rounds
pub open spec fn ipa_comb(vk: &VerifierKey, cs: Seq<&LabeledCommitment<Commitment>>, vs: Seq<Fr>, z: Fr, pr: &Proof, s: SS, n: nat) -> FS {
    let c0 = ipa_acc_c(cs, s, n); let v = ipa_acc_v(cs, vs, z@, (vk.comm_key@.len() - 1) as nat, s, n);
    if pr.hiding_comm is Some {
        let hc = ro_chal(Seq::<u8>::empty() + g1_ser_u(c0) + fr_ser_u(z@) + fr_ser_u(v) + g1_ser_u(pr.hiding_comm->Some_0@));
        f_add(c0, f_sub(f_mul(pr.hiding_comm->Some_0@, hc), f_mul(vk.s@, pr.rand->Some_0@)))
    } else { c0 }
}
pub open spec fn ipa_first(comb: FS, z: FS, v: FS) -> FS { ro_chal(Seq::<u8>::empty() + g1_ser_u(comb) + fr_ser_u(z) + fr_ser_u(v)) }
// published relation (DL/IPA PC of [BCMS20] sec. 3 / Halo): the folded commitment equals  c*U + c*h(z)*h'
pub open spec fn ipa_relation(vk: &VerifierKey, cs: Seq<&LabeledCommitment<Commitment>>, vs: Seq<Fr>, z: Fr, pr: &Proof, s: SS, n: nat) -> bool {
    let v = ipa_acc_v(cs, vs, z@, (vk.comm_key@.len() - 1) as nat, s, n);
    let comb = ipa_comb(vk, cs, vs, z, pr, s, n);
    let first = ipa_first(comb, z@, v);
    let hp = f_mul(vk.h@, first);
    let k = min(pr.l_vec@.len(), pr.r_vec@.len());
    let rcomm = ipa_rcomm(f_add(comb, f_mul(hp, v)), first, pr.l_vec@, pr.r_vec@, k);
    let u = ipa_rcs(first, pr.l_vec@, pr.r_vec@, k);
    f_sub(rcomm, f_add(f_add(f_add(f_zero(), f_mul(pr.final_comm_key@, pr.c@)), f_mul(hp, f_mul(scp_eval(u, z@, k), pr.c@))), f_zero())) == f_zero()
}
// the round challenges u_1..u_k of a transcript, and the key the verifier recomputes from them
pub open spec fn ipa_u(vk: &VerifierKey, cs: Seq<&LabeledCommitment<Commitment>>, vs: Seq<Fr>, z: Fr, pr: &Proof, s: SS, n: nat) -> Seq<FS> {
    let v = ipa_acc_v(cs, vs, z@, (vk.comm_key@.len() - 1) as nat, s, n);
    ipa_rcs(ipa_first(ipa_comb(vk, cs, vs, z, pr, s, n), z@, v), pr.l_vec@, pr.r_vec@, min(pr.l_vec@.len(), pr.r_vec@.len()))
}
// k = ceil(log2 n): the least k with n <= 2^k;  the key `check` recomputes from the round challenges
pub open spec fn is_ceil_log2(n: nat, k: nat) -> bool { n <= p2(k) && (n > 1 ==> p2((k - 1) as nat) < n) && (n <= 1 ==> k == 0) }
pub open spec fn ipa_final_key(vk: &VerifierKey, u: Seq<FS>) -> FS { msm(vk.comm_key@, scp_coeffs(u), min(vk.comm_key@.len(), scp_coeffs(u).len())) }
